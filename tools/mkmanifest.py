#!/usr/bin/env python3
"""Regenerates /verif/MANIFEST.json from the list of claimed properties below."""
import json, os
ROOT = os.path.join(os.path.dirname(os.path.abspath(__file__)), "..")
props = [json.loads(l) for l in open(os.path.join(ROOT, "properties.jsonl"))]

G = "generator-level: the real plugin process is run on synthesised CodeGeneratorRequests; "
R = "two-level: rapid draws descriptors/configurations, the plugin's output is compiled with protoc-gen-gogo's structs, and an inner rapid search drives the emitted functions; "
claimed = {
 "C01": ("property-based testing (rapid): generate-and-build with process / go/ast / compile oracles", G + "outputs are checked at the process boundary, by go/ast and by compiling them"),
 "C02": ("property-based testing (rapid): reference model of names/types + single-field write/read probes (metamorphic diff)", R + "schema vs model M(S,K), then single-field probes"),
 "C03": ("property-based testing (rapid): validity predicate over CopyTo results (schema walk + framework acceptance)", R + "results are walked against the schema type and handed to the framework"),
 "C04": ("property-based testing (rapid): round-trip oracle in the documented normal form", R + "NF(CopyFrom(CopyTo(x))) == NF(x)"),
 "C05": ("property-based testing (rapid): metamorphic relation over (object, payload twin) x (zero, populated target) + zero-field invariant", R + "four runs must agree and null/unknown must leave zero fields"),
 "C07": ("property-based testing (rapid): invariant over histories of CopyFrom calls and over CopyTo results, per oneof group", R + "oneof holders / null flags compared with the statement at every depth"),
 "C08": ("property-based testing (rapid): path-wise comparison of plan and echoed object + round trip", R + "plans from P(S) are echoed through CopyFrom;CopyTo"),
 "C09": ("property-based testing (rapid): stateful histories of in-place CopyTo with a differential oracle (fresh CopyTo) and idempotence", R + "each step is compared with a fresh CopyTo of the same source"),
 "C10": ("property-based testing (rapid): reference model of schema flags and metadata", R + "run-time schema walked against M(S,K)"),
 "C19": ("property-based testing (rapid): exact round trip over boundary sets of every Go field type", R + "boundary and random values must survive CopyTo;CopyFrom"),
 "C20": ("property-based testing (rapid): reference model of null-ness after CopyTo into an empty object", R + "null flags compared with the fields"),
}
claimed.update({
 "C06": ("property-based testing (rapid): fault injection into objects / attribute types with an expected-diagnostics model and a differential oracle (nullified twin, untouched run)", R + "corruption scripts at any depth; diagnostics as multisets, remaining attributes against an uncorrupted reference"),
 "C11": ("property-based testing (rapid): differential testing of two configurations (K0, K0 + one entry) compiled into one binary, each against the reference model", R + "schemas against their models, converters against each other on inputs translated by proto field chain"),
 "C12": ("property-based testing (rapid): metamorphic relation over requests (types subsets, extra messages and files) with byte-level comparison of per-function source text", G + "three plugin runs per case compared function by function"),
 "C13": ("property-based testing (rapid): differential testing of same-package vs separate-package output in one binary", R + "schemas, CopyTo/CopyFrom results and diagnostics of the two layouts must be equal"),
 "C14": ("property-based testing (rapid): repeated process runs and shuffled renderings of one configuration, byte comparison of responses", G + "6 runs + 6 shuffled YAML + 6 shuffled command-line renderings per case, plus repeated runs of a request with two files to generate"),
 "C15": ("property-based testing (rapid): metamorphic relation under declaration-order permutations (bytes with sort on, behaviour in one binary with sort off)", G + "and, with sort off, " + R + "permuted and original descriptors must agree"),
 "C16": ("property-based testing (rapid): metamorphic relation over channel splits of one configuration, byte comparison; failure cases", G + "all-YAML vs every drawn split, precedence and failure cases"),
 "C17": ("property-based testing (rapid): call-log oracle over instrumented user hooks + metamorphic type flip", R + "hook calls matched against the custom fields reached"),
 "C18": ("property-based testing (rapid): fault injection of one unmappable field with per-function differential comparison and a reference model of reachability", G + "runs without the field, with it, and with it excluded"),
})
FZ = "; thorough tier additionally runs a coverage-guided native fuzz campaign (go test -fuzz through rapid.MakeFuzz, same generators and oracle) on the repository's test.proto"
for k in ("C04", "C05", "C06", "C08", "C09"):
    claimed[k] = (claimed[k][0] + FZ, claimed[k][1])
pending = "check under construction in this round (not yet claimed)"
checks, na = [], []
for p in props:
    i = p["id"]
    if i in claimed:
        tech, text = claimed[i]
        checks.append({
            "property_id": i,
            "quick_cmd": "./check %s quick" % i,
            "thorough_cmd": "./check %s thorough" % i,
            "evidence_file": "/verif/evidence/%s.json" % i,
            "replay_cmd_template": "./check %s --replay {path}" % i,
            "engine": "check",
            "level_claimed": {"category": "exploration", "text": text + "; absence of violations is claimed only for the generated cases (counts and class histogram in the evidence file)", "design_ref": "DESIGN.md §5 " + i},
            "level_note": "trusts the Go toolchain, terraform-plugin-framework v0.10.0, protoc-gen-gogo v1.3.2, go-strcase, the harness's reflection code and the synthetic descriptor builder (pinned by a fidelity test)",
            "technique": tech,
        })
    else:
        na.append({"property_id": i, "reason": pending})
m = {
 "version": 1,
 "setup_cmd": "./setup.sh",
 "hooks": {"guard": "verif", "enable": "none needed: every observation point is the plugin's process boundary or the code it emits; checks build /repo's working tree with plain `go build`",
           "baseline_off_cmd": "cd /repo && go test -vet=off -count=1 ./...", "source_commits": [], "add_only": True},
 "engines": [{"name": "check", "path": "harness/cmd/check", "serves_properties": sorted(claimed),
              "kind_free_text": "Go driver: builds the plugin from /repo's working tree, runs the probes of known_findings.json and the saved replays, shards rapid (pgregory.net/rapid v1.3.0) property tests over 16 processes, merges results into the evidence file"}],
 "checks": checks,
 "not_applicable": na,
 "notes": "DESIGN.md describes the approach; known_findings.json lists genuine defects (fixed by 'fix:' commits in /repo, or known with a probe).",
}
json.dump(m, open(os.path.join(ROOT, "MANIFEST.json"), "w"), indent=1)
print("claimed", len(checks), "pending", len(na))
