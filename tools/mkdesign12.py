#!/usr/bin/env python3
"""Assembles DESIGN.md section 12 from tools/design12_head.md, tools/design12_mid.md and generated tables:
the sensitivity results (mutants/results.json written from tools/mutants_all.sh output, seeded/*/meta.json) and
the budgets of harness/cmd/check/table.go. Re-run after every sensitivity run."""
import json, os, re, glob, sys

ROOT = os.path.join(os.path.dirname(os.path.abspath(__file__)), "..")

def mutants_table():
    meta = {m["id"]: m for m in json.load(open(os.path.join(ROOT, "mutants", "mutants.json")))}
    res_path = os.path.join(ROOT, "mutants", "results.json")
    res = json.load(open(res_path)) if os.path.exists(res_path) else {}
    rows = ["| mutant | what it does | checks run | caught by |", "|---|---|---|---|"]
    for mid in sorted(meta):
        m = meta[mid]
        r = res.get(mid, {})
        caught = ", ".join(sorted(p for p, e in r.items() if e == 1)) or "—"
        missed = ", ".join(sorted(p for p, e in r.items() if e != 1))
        ran = ", ".join(m["properties"])
        if missed:
            caught += " (not by: %s)" % missed
        rows.append("| %s | %s (`%s`) | %s | %s |" % (mid, m["what"], m["file"], ran, caught))
    return "\n".join(rows)

def seeded_table():
    rows = ["| change | property | what it is (author's summary, shortened) | needs | caught by |", "|---|---|---|---|---|"]
    def short(s, n):
        s = " ".join((s or "").split())
        return s if len(s) <= n else s[: n - 1] + "…"
    def key(d):
        b = os.path.basename(d)
        m = re.match(r"(R\d-)?C(\d+)-(\d+)", b)
        return (m.group(1) or "", int(m.group(2)), int(m.group(3))) if m else ("z", 0, 0)
    notes_path = os.path.join(ROOT, "seeded", "notes.json")
    notes = json.load(open(notes_path)) if os.path.exists(notes_path) else {}
    for d in sorted(glob.glob(os.path.join(ROOT, "seeded", "*")), key=key):
        mp = os.path.join(d, "meta.json")
        if not os.path.exists(mp):
            continue
        m = json.load(open(mp))
        caught = ", ".join(m.get("caught_by", [])) or "**missed**"
        if os.path.basename(d) in notes and not m.get("caught_by"):
            caught = notes[os.path.basename(d)]
        missed = [k for k, v in m.get("checks_run", {}).items() if v.get("exit") != 1]
        if missed and m.get("caught_by"):
            caught += " (not by: %s)" % ", ".join(missed)
        if m.get("recheck", {}).get("stale"):
            caught += " (at import; the patch no longer applies to the tree since a later `fix:` commit rewrote the same lines)"
        rows.append("| %s | %s | %s | %s | %s |" % (os.path.basename(d), m.get("property", ""), short(m.get("summary", ""), 260).replace("|", "/"),
                                                     short(m.get("needs", ""), 220).replace("|", "/"), caught))
    return "\n".join(rows)

def budgets_table():
    src = open(os.path.join(ROOT, "harness", "cmd", "check", "table.go")).read()
    rows = ["| property | quick: outer cases × inner cases per compiled case | thorough |", "|---|---|---|"]
    for m in re.finditer(r'"(C\d+)": \{\s*quick:\s*budget\{checks: (\d+), shards: \d+(?:, inner: (\d+))?\},\s*thorough: budget\{checks: (\d+), shards: \d+(?:, inner: (\d+))?\}', src):
        pid, qc, qi, tc, ti = m.groups()
        rows.append("| %s | %s%s | %s%s |" % (pid, qc, " × " + qi if qi else "", tc, " × " + ti if ti else ""))
    return "\n".join(rows)

def main():
    head = open(os.path.join(ROOT, "tools", "design12_head.md")).read()
    mid = open(os.path.join(ROOT, "tools", "design12_mid.md")).read()
    tail = open(os.path.join(ROOT, "tools", "design12_tail.md")).read()
    sec = head + mid + "### 12.5 Sensitivity: which checks catch which broken versions\n\n" \
        "**Own mutants** (`mutants/*.patch`, one realistic edit each, all build and pass the 41 baseline tests). `tools/mutants_all.sh` applies each " \
        "to a scratch worktree of `/repo` and runs the quick tier of the listed checks with `VERIF_REPO` pointing at it; a caught mutant is exit 1 with a VIOLATION line.\n\n" \
        + mutants_table() + "\n\n" \
        "**Seeded changes written by independent sub-agents** (`seeded/<ID>-<n>/`: `patch.diff`, the author's demonstration, `meta.json`). Each agent got only the text of one " \
        "property and a private worktree; nothing from `/verif`. Every change was confirmed first (`tools/verify_seed.sh`: applies to HEAD, builds, passes the 41 tests, its " \
        "demonstration fails with it and passes without it) and then run against the checks (`tools/seed_import.py`). `R2-` … `R7-` entries are later rounds in which the agents were " \
        "shown the summaries of all earlier rounds for their property and asked for different, harder defects; from the fourth round on they were also told to stay inside D and make the " \
        "*trigger* rare (values, call sequences, option interactions, ordering) rather than the descriptor exotic. 257 changes in all. Not caught: `R3-C11-1` and `R6-C20-2`, which only alter output for inputs outside D (nested " \
        "declarations, the `schema_types` option), and `R7-C13-2` (a generated file that imports nothing at all: a known gap, see the table). The seventh round (20 changes, ten properties) " \
        "was imported as a measurement first: 16 of 20 were caught by the checks as they stood; three of the four misses were then closed by small generator additions, the fourth is the gap. Where a change was first missed, the column shows the state after the generator or oracle was extended (12.2 lists those extensions).\n\n" \
        + seeded_table() + "\n\n" + tail.replace("{BUDGETS}", budgets_table()).replace("{FINAL}", open(os.path.join(ROOT, "tools", "design12_final.md")).read().strip())
    p = os.path.join(ROOT, "DESIGN.md")
    s = open(p).read()
    marker = "\n## 12. As built\n"
    i = s.find(marker)
    if i >= 0:
        s = s[:i]
    s = s.rstrip("\n") + "\n" + sec
    open(p, "w").write(s)
    print("DESIGN.md section 12 written (%d bytes)" % len(sec))

if __name__ == "__main__":
    main()
