#!/usr/bin/env python3
"""Writes the hand-made probe cases (minimal reproductions of findings) as replay files.

A probe is a replay file: prop, variants [{layout, file, config}], extra. Running
`./check <ID> --replay <file>` rebuilds the case from the current tree and re-runs it.
"""
import json, os, sys

ROOT = os.path.join(os.path.dirname(os.path.abspath(__file__)), "..", "replays")

def layout(variant="v0", separate=False):
    l = {"variant": variant, "struct_path": "vcase.test/m/%s/%s" % (variant, variant), "struct_name": variant,
         "struct_dir": "%s/%s" % (variant, variant), "separate": separate, "qualified_tf": True, "use_override": False,
         "shared_struct": False}
    if separate:
        l.update(target_name="tfschema", target_path="vcase.test/m/%s/tf/tfschema" % variant, target_dir="%s/tf/tfschema" % variant)
    else:
        l.update(target_name=variant, target_path=l["struct_path"], target_dir=l["struct_dir"])
    return l

CAST = {"Duration": "int64", "MyInt32": "int32", "MyInt64": "int64", "MyUint32": "uint32", "MyUint64": "uint64",
        "MyFloat32": "float32", "MyFloat64": "float64", "MyBool": "bool", "MyString": "string", "MyBytes": "[]byte"}
CUSTOM = {"BoolCustom": "bool", "StrCustom": "string", "IntCustom": "int64"}

TT = {"type": "verif/support.TimeType", "value_type": "verif/support.TimeValue", "cast_to_type": "time.Time", "cast_from_type": "time.Time"}
DT = {"type": "verif/support.DurationType", "value_type": "verif/support.DurationValue", "cast_to_type": "time.Duration", "cast_from_type": "time.Duration"}

def fld(name, number, kind, card="", **kw):
    f = {"name": name, "number": number, "kind": kind}
    if card:
        f["card"] = card
    f.update(kw)
    return f

def msg(name, *fields):
    return {"name": name, "fields": list(fields)}

def file(*messages, enums=None, package="v0"):
    return {"name": "x.proto", "package": package, "messages": list(messages), "enums": enums or [],
            "cast_types": CAST, "custom_types": CUSTOM}

def config(types, **kw):
    c = {"types": types, "time_type": TT, "duration_type": DT}
    c.update(kw)
    return c

def variant(f, c, variant="v0", separate=False):
    l = layout(variant, separate)
    f = dict(f)
    f["package"] = variant
    if separate:
        c = dict(c)
        c["default_package_name"] = l["struct_path"]
        c["target_package_name"] = l["target_name"]
    return {"layout": l, "file": f, "config": c}

def write(prop, name, variants, extra=None):
    d = os.path.join(ROOT, prop)
    os.makedirs(d, exist_ok=True)
    rp = {"prop": prop, "message": "", "variants": variants, "extra": extra or {}}
    with open(os.path.join(d, name + ".json"), "w") as fh:
        json.dump(rp, fh, indent=1)
        fh.write("\n")

INNER = {"inner_seed": 7, "inner_checks": 400}

def main():
    # F1: map<string, bytes>
    write("C01", "probe-F1", [variant(file(msg("A", fld("M", 1, "bytes", "map"))), config(["A"]))])
    # F2: empty message as repeated element, as map value, and as a selected root type
    write("C01", "probe-F2", [variant(file(msg("E"), msg("A", fld("L", 1, "message", "repeated", type="E"),
                                                       fld("M", 2, "message", "map", type="E"),
                                                       fld("N", 3, "message", "map", type="E", nullable=False),
                                                       fld("S", 4, "string"))), config(["A", "E"]))])
    # F3: nullable embedded message with a scalar child; CopyTo of a value whose embedded pointer is nil
    write("C03", "probe-F3", [variant(file(msg("Emb", fld("S", 1, "string"), fld("I", 2, "int32")),
                                           msg("A", fld("Emb", 1, "message", type="Emb", embed=True), fld("X", 2, "string"))),
                                      config(["A"]))], INNER)
    # F9: a non-nil pointer to a message without fields is read back as nil
    write("C04", "probe-F9", [variant(file(msg("E"), msg("A", fld("P", 1, "message", type="E"), fld("X", 2, "string"))),
                                      config(["A"]))], INNER)
    # F5: nullable embedded message is not reset by null attributes
    write("C05", "probe-F5", [variant(file(msg("Emb", fld("S", 1, "string"), fld("I", 2, "int32")),
                                           msg("A", fld("Emb", 1, "message", type="Emb", embed=True), fld("X", 2, "string"))),
                                      config(["A"]))], INNER)
    # F6: a null/unknown list or map that carries a payload is read as a collection of zero elements
    write("C05", "probe-F6", [variant(file(msg("N", fld("S", 1, "string")),
                                           msg("A", fld("L", 1, "string", "repeated"), fld("M", 2, "string", "map"),
                                               fld("NL", 3, "message", "repeated", type="N"), fld("NM", 4, "message", "map", type="N"))),
                                      config(["A"]))], INNER)
    # F7: refresh leaves stale list elements / map keys behind
    write("C09", "probe-F7", [variant(file(msg("N", fld("S", 1, "string")),
                                           msg("A", fld("L", 1, "string", "repeated"), fld("M", 2, "string", "map"),
                                               fld("NL", 3, "message", "repeated", type="N"), fld("NM", 4, "message", "map", type="N"))),
                                      config(["A"]))], INNER)
    # F11: the oneof of a (non-nullable) embedded message is not reset by CopyFrom
    write("C07", "probe-F11", [variant(file(msg("E", fld("a", 1, "string", oneof="X"), fld("b", 2, "string", oneof="X"), fld("c", 3, "int32")),
                                            msg("A", fld("E", 1, "message", type="E", embed=True, nullable=False), fld("S", 2, "string"))),
                                       config(["A"]))], INNER)
    # F10: a duration held by value (casttype) as a oneof member is rendered non-null when the branch is inactive
    write("C07", "probe-F10", [variant(file(msg("A", fld("s", 1, "string", oneof="X"), fld("d", 2, "int64", oneof="X", casttype="Duration"),
                                                fld("t", 3, "int64", oneof="X", casttype="time.Duration"), fld("z", 4, "string"))),
                                       config(["A"], duration_custom_type="Duration"))], INNER)
    # F4: nullable embedded message with a list / map / message child (nil dereference in both converters)
    f4 = file(msg("N", fld("S", 1, "string")),
              msg("Emb", fld("L", 1, "string", "repeated"), fld("M", 2, "string", "map"), fld("N", 3, "message", type="N"),
                  fld("NV", 4, "message", type="N", nullable=False), fld("NL", 5, "message", "repeated", type="N"),
                  fld("T", 6, "timestamp"), fld("S", 7, "string")),
              msg("A", fld("Emb", 1, "message", type="Emb", embed=True), fld("X", 2, "string")))
    for prop in ["C03", "C04", "C05", "C06", "C08", "C09", "C19", "C20"]:
        write(prop, "probe-F4", [variant(f4, config(["A"]))], INNER)
    # F12: a nested / element message whose only fields are messages without fields held by value:
    # CopyTo declares obj for it and never uses it
    write("C01", "probe-F12", [variant(file(msg("E"), msg("S", fld("e", 1, "message", type="E", nullable=False)),
                                            msg("A", fld("s", 1, "message", type="S"), fld("m", 2, "message", "map", type="S"),
                                                fld("l", 3, "message", "repeated", type="S", nullable=False), fld("x", 4, "string"))),
                                       config(["A"]))])
    # F13: a nullable embedded message with a child that is a message without fields held by value: the repair of F4
    # declares the local `src` for it and nothing reads it ('declared and not used: src')
    f13 = file(msg("E"), msg("Emb", fld("e", 1, "message", type="E", nullable=False), fld("s", 2, "string"),
                             fld("l", 3, "string", "repeated")),
               msg("A", fld("Emb", 1, "message", type="Emb", embed=True), fld("x", 2, "int64")))
    write("C01", "probe-F13", [variant(f13, config(["A"]))])
    for prop in ["C03", "C04", "C05", "C09", "C20"]:
        write(prop, "probe-F13", [variant(f13, config(["A"]))], INNER)

if __name__ == "__main__":
    main()
