#!/usr/bin/env python3
"""Re-runs every imported seeded change against the current checks (quick tier) and reports the ones that are no longer
caught. usage: tools/seeds_rerun.py [all|first] [name-regex]
  first (default): only the first check that caught the change at import time; all: every check recorded as catching it.
The result is stored in meta.json under "recheck" (checks_run / caught_by of the import are kept)."""
import glob, json, os, re, subprocess, sys, time
ROOT = os.path.join(os.path.dirname(os.path.abspath(__file__)), "..")
mode = sys.argv[1] if len(sys.argv) > 1 else "first"
rx = re.compile(sys.argv[2]) if len(sys.argv) > 2 else None
lost = []
for d in sorted(glob.glob(os.path.join(ROOT, "seeded", "*"))):
    mp = os.path.join(d, "meta.json")
    if not os.path.exists(mp) or (rx and not rx.search(os.path.basename(d))):
        continue
    meta = json.load(open(mp))
    props = meta.get("caught_by", [])
    if not props:
        continue
    own = meta.get("property")
    if mode == "first":
        props = [own] if own in props else props[:1]
    out = subprocess.run([os.path.join(ROOT, "tools", "mutate.sh"), os.path.join(d, "patch.diff")] + props,
                         capture_output=True, text=True, stdin=subprocess.DEVNULL).stdout
    checks = {}
    for l in out.splitlines():
        parts = l.split(" ", 3)
        if len(parts) >= 3 and parts[2].startswith("exit="):
            checks[parts[1]] = int(parts[2][5:])
    stale = "patch does not apply" in out
    meta["recheck"] = {"when": time.strftime("%Y-%m-%dT%H:%M:%SZ", time.gmtime()), "exit": checks}
    if stale:
        # written against an older tree: a later fix: commit rewrote the same lines
        meta["recheck"]["stale"] = "does not apply to the current tree any more (conflicts with a later fix: commit)"
    json.dump(meta, open(mp, "w"), indent=1)
    bad = [p for p in props if checks.get(p) != 1]
    if stale:
        print(os.path.basename(d), "STALE (patch does not apply to the current tree)", flush=True)
        continue
    print(os.path.basename(d), checks, "LOST" if bad else "ok", flush=True)
    if bad:
        lost.append(os.path.basename(d))
print("RERUN-DONE lost:", lost)
