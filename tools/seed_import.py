#!/usr/bin/env python3
"""Imports a sub-agent's seeded change into /verif/seeded/<ID>-<n>/ after confirming it, and runs the
given checks against it.  usage: tools/seed_import.py <ID> <n> <prop> [<prop>...]"""
import json, os, shutil, subprocess, sys
ROOT = os.path.join(os.path.dirname(os.path.abspath(__file__)), "..")
pid, n, props = sys.argv[1], sys.argv[2], sys.argv[3:]
base = os.environ.get("SEED_SRC", "/tmp/seedout")
prefix = os.environ.get("SEED_PREFIX", "")
src = "%s/%s/change%s" % (base, pid, n)
dst = os.path.join(ROOT, "seeded", "%s%s-%s" % (prefix, pid, n))
if os.path.exists(dst):
    shutil.rmtree(dst)
shutil.copytree(src, dst)
ver = subprocess.run([os.path.join(ROOT, "tools", "verify_seed.sh"), dst], capture_output=True, text=True).stdout
res = [l for l in ver.splitlines() if l.startswith("RESULT")]
confirmed = bool(res) and "baseline_with_change=0 demo_clean=0 demo_with_change=1" in res[0]
mut = subprocess.run([os.path.join(ROOT, "tools", "mutate.sh"), os.path.join(dst, "patch.diff")] + props, capture_output=True, text=True, stdin=subprocess.DEVNULL).stdout
checks = {}
for l in mut.splitlines():
    parts = l.split(" ", 3)
    if len(parts) >= 3 and parts[2].startswith("exit="):
        checks[parts[1]] = {"exit": int(parts[2][5:]), "message": parts[3] if len(parts) > 3 else ""}
meta = json.load(open(os.path.join(dst, "meta.json")))
meta["confirmed"] = {"by": "tools/verify_seed.sh", "result": res[0] if res else ver[-300:], "ok": confirmed}
meta["checks_run"] = checks
meta["caught_by"] = sorted(k for k, v in checks.items() if v["exit"] == 1)
json.dump(meta, open(os.path.join(dst, "meta.json"), "w"), indent=1)
print(pid, n, "confirmed" if confirmed else "NOT CONFIRMED", "caught by", meta["caught_by"], "| missed by", sorted(k for k, v in checks.items() if v["exit"] != 1))
for k, v in checks.items():
    print("   ", k, v["exit"], v["message"][:200])
