#!/bin/sh
# Multi-seed sweep: runs every check's quick tier at several seeds and reports everything that is not a clean pass.
# usage: tools/sweep.sh "<seeds>" [tier] [ids...]
ROOT=$(cd "$(dirname "$0")/.." && pwd)
seeds=${1:-"2 3 4 5"}; tier=${2:-quick}; shift 2 2>/dev/null
ids=${*:-C01 C02 C03 C04 C05 C06 C07 C08 C09 C10 C11 C12 C13 C14 C15 C16 C17 C18 C19 C20}
cd "$ROOT" || exit 2
mkdir -p sweep
for s in $seeds; do
  for p in $ids; do
    VERIF_SEED=$s ./check $p $tier > sweep/$p-$s.log 2>&1
    code=$?
    if [ $code -ne 0 ]; then
      echo "seed=$s $p exit=$code"
      grep -v "^\s*$" sweep/$p-$s.log | cut -c1-1800 | tail -4
      cp replays/$p/new/violation-seed$s.json sweep/ 2>/dev/null
    else
      echo "seed=$s $p ok"
    fi
  done
done
echo SWEEP-DONE
