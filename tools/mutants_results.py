#!/usr/bin/env python3
"""Turns the output of tools/mutants_all.sh (a log file) into mutants/results.json."""
import json, os, re, sys
ROOT = os.path.join(os.path.dirname(os.path.abspath(__file__)), "..")
res = {}
for l in open(sys.argv[1]):
    m = re.match(r"(m\w+)\.patch (C\d+) exit=(\d+)", l)
    if m:
        res.setdefault(m.group(1), {})[m.group(2)] = int(m.group(3))
json.dump(res, open(os.path.join(ROOT, "mutants", "results.json"), "w"), indent=1, sort_keys=True)
missed = {k: v for k, v in res.items() if not any(e == 1 for e in v.values())}
print(len(res), "mutants;", "not caught:", missed)
