#!/bin/sh
# Runs every mutant of mutants/mutants.json against the checks of the properties it is meant to break.
ROOT=$(cd "$(dirname "$0")/.." && pwd)
python3 - "$ROOT" <<'PY' | while read id props; do "$ROOT/tools/mutate.sh" "$ROOT/mutants/$id.patch" $props < /dev/null; done
import json, sys
for m in json.load(open(sys.argv[1] + "/mutants/mutants.json")):
    if m["builds_and_passes_baseline"]:
        print(m["id"], " ".join(m["properties"]))
PY
# summary for DESIGN.md: mutants/results.json {mutant: {property: exit code}} from the lines printed above (re-run with `| tee`)
