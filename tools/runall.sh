#!/bin/sh
# Runs every registered check (quick or thorough) sequentially with the registered commands and summarises.
# usage: tools/runall.sh [quick|thorough] [ids...]
tier=${1:-quick}; shift 2>/dev/null
ids=${*:-C01 C02 C03 C04 C05 C06 C07 C08 C09 C10 C11 C12 C13 C14 C15 C16 C17 C18 C19 C20}
cd "$(dirname "$0")/.." || exit 2
for p in $ids; do
  start=$(date +%s)
  ./check $p $tier > /tmp/runall-$tier-$p.log 2>&1
  code=$?
  end=$(date +%s)
  echo "$p exit=$code $((end-start))s $(grep -c "^VIOLATION" /tmp/runall-$tier-$p.log) violations $(grep -c "^KNOWN-FINDING" /tmp/runall-$tier-$p.log) known"
done
