#!/bin/sh
# Confirms a sub-agent's seeded change: (1) applies, builds, passes the 41 baseline tests;
# (2) its demonstration fails with the change and passes without. Prints a summary line.
# usage: tools/verify_seed.sh <dir with patch.diff and demo/run.sh>
dir=$(cd "$1" && pwd)
export GOFLAGS=-mod=mod GOPROXY=off GOSUMDB=off GOTOOLCHAIN=local
d=$(mktemp -d /var/tmp/verif-seed-XXXXXX)
git -C /repo worktree add -q --detach "$d/wt" HEAD || exit 2
trap 'git -C /repo worktree remove --force "$d/wt" >/dev/null 2>&1; rm -rf "$d"' EXIT
( cd "$dir/demo" && bash ./run.sh "$d/wt" > "$d/demo-clean.log" 2>&1 ); clean=$?
if ! git -C "$d/wt" apply "$dir/patch.diff" 2>/dev/null && ! git -C "$d/wt" apply --3way "$dir/patch.diff"; then echo "RESULT $dir: patch does not apply"; exit 1; fi
( cd "$d/wt" && go build ./... && go test -vet=off -count=1 ./... > "$d/base.log" 2>&1 ); base=$?
( cd "$dir/demo" && bash ./run.sh "$d/wt" > "$d/demo-mut.log" 2>&1 ); mut=$?
echo "RESULT $dir: baseline_with_change=$base demo_clean=$clean demo_with_change=$mut"
tail -3 "$d/demo-mut.log" | cut -c1-300
