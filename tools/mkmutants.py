#!/usr/bin/env python3
"""Generates /verif/mutants/*.patch: realistic edits that break one property while the plugin
still builds and the 41 baseline tests still pass. Each mutant is (id, property, file, old, new)."""
import os, subprocess, shutil, sys, tempfile, json

REPO = os.environ.get("VERIF_REPO", "/repo")
OUT = os.path.join(os.path.dirname(os.path.abspath(__file__)), "..", "mutants")

M = [
 ("m01a", ["C01"], "main.go", "\tresponse.SupportedFeatures = &features\n", "\t_ = features\n", "response no longer advertises FEATURE_PROTO3_OPTIONAL"),
 ("m01b", ["C01"], "field_build_context.go", "\tname := c.field.GetName()\n\tif name[0:1] == strings.ToLower(name[0:1]) {\n\t\treturn strcase.UpperCamelCase(name)\n\t}\n\treturn name\n}\n\n// GetPath returns a field path",
  "\tname := c.field.GetName()\n\tif name[0:1] == strings.ToLower(name[0:1]) && !strings.Contains(name, \"_\") {\n\t\treturn strcase.UpperCamelCase(name)\n\t}\n\treturn name\n}\n\n// GetPath returns a field path", "lower_snake field names with an underscore are not camel-cased: obj.<name> does not compile"),
 ("m02a", ["C02"], "field_build_context.go", "\tv, ok := c.config.NameOverrides[c.GetPath()]\n\tif !ok {\n\t\tv, ok = c.config.NameOverrides[c.GetNameWithTypeName()]\n\t}\n\n\tif ok {\n\t\treturn v\n\t}\n\n\tn := c.field.GetJSONName()\n\tif n != \"\" {\n\t\treturn n\n\t}\n",
  "\tn := c.field.GetJSONName()\n\tif n != \"\" {\n\t\treturn n\n\t}\n\n\tv, ok := c.config.NameOverrides[c.GetPath()]\n\tif !ok {\n\t\tv, ok = c.config.NameOverrides[c.GetNameWithTypeName()]\n\t}\n\n\tif ok {\n\t\treturn v\n\t}\n", "json tag takes precedence over name_overrides"),
 ("m02b", ["C02"], "field_descriptor_proto_ext.go", "\t\tif j[0] != \"-\" {\n\t\t\treturn j[0]\n\t\t}\n", "\t\treturn j[0]\n", "json tag '-' is used as attribute name"),
 ("m03a", ["C03"], "gen_copy_to.go", "\t\t\tj.Id(\"AttrTypes\"): j.Id(\"o.AttrTypes\"),\n", "\t\t\tj.Id(\"AttrTypes\"): j.Id(\"tf.AttrTypes\"),\n", "new nested / element objects carry the attribute types of the enclosing object"),
 ("m04a", ["C04", "C20", "C19"], "gen_copy_to.go", "\t\t\t\tg.If(j.Len(j.Id(fieldName))).Op(\">\").Lit(0).Block(", "\t\t\t\tg.If(j.Len(j.Id(fieldName))).Op(\">\").Lit(1).Block(", "single-element lists/maps are rendered null by CopyTo into an empty object"),
 ("m05a", ["C05"], "gen_copy_from.go", "\tg.If(j.Id(\"!v.Null && !v.Unknown\")).BlockFunc(func(g *j.Group) {\n\t\tif !f.IsNullable {\n\t\t\t// obj.Float = float32(v.Value)",
  "\tg.If(j.Id(\"!v.Null\")).BlockFunc(func(g *j.Group) {\n\t\tif !f.IsNullable {\n\t\t\t// obj.Float = float32(v.Value)", "unknown scalars are read from their payload"),
 ("m05b", ["C05", "C07"], "gen_copy_from.go", "\tfor _, m := range oneOfNames {\n\t\tg.Add(j.Id(\"obj.\" + m).Op(\"=\").Nil())\n\t}\n", "\t_ = oneOfNames\n", "oneof holders are not reset before reading"),
 ("m06a", ["C06"], "gen_copy_from.go", "\t\tj.Id(\"attrReadMissingDiag\").Values(j.Lit(f.Path)),", "\t\tj.Id(\"attrReadMissingDiag\").Values(j.Lit(f.Name)),", "missing-attribute diagnostics carry the Go field name instead of the path"),
 ("m06b", ["C06"], "gen_copy_to.go", "\t\tj.If(j.Id(\"!ok\")).BlockFunc(f.errAttrMissingDiag).Else().BlockFunc(func(gr *j.Group) {", "\t\tj.If(j.Id(\"ok\")).BlockFunc(func(gr *j.Group) {", "CopyTo silently skips attributes whose type is missing from the target"),
 ("m07a", ["C07"], "gen_copy_from.go", "\t\t\t// Do not set empty oneOf value to not override values possibly set by other branches\n\t\t\tg.If(j.Id(\"!v.Null && !v.Unknown\")).BlockFunc(func(g *j.Group) {",
  "\t\t\t// Do not set empty oneOf value to not override values possibly set by other branches\n\t\t\tg.If(j.Id(\"!v.Unknown\")).BlockFunc(func(g *j.Group) {", "a null scalar branch replaces the branch set before it"),
 ("m08a", ["C08"], "gen_copy_to.go", "\t\t}\n\t}\n\n\tg.Id(\"v.Unknown\").Op(\"=\").False()\n}\n\nfunc (f *FieldCopyToGenerator) genAssignValue", "\t\t}\n\t}\n}\n\nfunc (f *FieldCopyToGenerator) genAssignValue", "scalar attributes keep Unknown when copied back into a plan"),
 ("m08b", ["C08"], "gen_copy_to.go", "\t\t\t\tg.If(j.Len(j.Id(fieldName))).Op(\">\").Lit(0).Block(\n\t\t\t\t\tj.Id(\"c.Null\").Op(\"=\").False(),\n\t\t\t\t)", "\t\t\t\tg.Id(\"c.Null\").Op(\"=\").False()", "a planned null list comes back as a known empty list"),
 ("m09a", ["C09"], "gen_copy_to.go", "\t\t\t\tg.If(j.Id(\"c.Elems\").Op(\"==\").Nil().Op(\"||\").Len(j.Id(fieldName)).Op(\"!=\").Len(j.Id(\"c.Elems\"))).Block(", "\t\t\t\tg.If(j.Id(\"c.Elems\").Op(\"==\").Nil().Op(\"||\").Len(j.Id(fieldName)).Op(\">\").Len(j.Id(\"c.Elems\"))).Block(", "existing lists are only re-allocated when they grow: shrinking leaves stale elements"),
 ("m10a", ["C10"], "gen_schema.go", "\tif f.IsRequired {\n\t\td[j.Id(\"Required\")] = j.True()\n\t} else {\n\t\td[j.Id(\"Optional\")] = j.True()\n\t}\n", "\tif f.IsRequired {\n\t\td[j.Id(\"Required\")] = j.True()\n\t}\n\td[j.Id(\"Optional\")] = j.True()\n", "required attributes are also Optional"),
 ("m10b", ["C10"], "field_build_context.go", "\tif ok {\n\t\treturn v\n\t}\n\n\tif c.config.UseStateForUnknownByDefault && c.IsComputed() {\n\t\treturn []string{\"github.com/hashicorp/terraform-plugin-framework/tfsdk.UseStateForUnknown()\"}\n\t}\n",
  "\tif c.config.UseStateForUnknownByDefault && c.IsComputed() {\n\t\treturn append([]string{\"github.com/hashicorp/terraform-plugin-framework/tfsdk.UseStateForUnknown()\"}, v...)\n\t}\n\n\tif ok {\n\t\treturn v\n\t}\n", "UseStateForUnknown is added to computed attributes even when explicit plan modifiers exist"),
 ("m11a", ["C11"], "field_build_context.go", "\t_, ok1 := f[c.GetNameWithTypeName()]\n\t_, ok2 := f[c.GetPath()]\n\n\treturn ok1 || ok2\n", "\t_, ok1 := f[c.GetNameWithTypeName()]\n\n\treturn ok1\n", "flag options keyed by full path are ignored"),
 ("m11b", ["C11"], "field.go", "\tm, err := BuildMessage(c.plugin, d, false, c.path)\n", "\tm, err := BuildMessage(c.plugin, d, false, c.typeName)\n", "nested messages are built with Message.Field as path prefix: full-path keys below do not match"),
 ("m12a", ["C12"], "plugin.go", "\tfor _, message := range m {\n\t\tif !message.IsRoot {\n\t\t\tcontinue\n\t\t}\n\n\t\tg := NewMessageSchemaGenerator(message, &p.Imports)", "\tfor _, message := range m {\n\t\tg := NewMessageSchemaGenerator(message, &p.Imports)", "schemas are also emitted for nested (non-root) messages"),
 ("m13a", ["C13"], "imports.go", "\t\t\"uint\", \"uint8\", \"uint16\", \"uint32\", \"uint64\", \"uintptr\",", "\t\t\"uint\", \"uint8\", \"uint16\", \"uint64\", \"uintptr\",", "uint32 is package-qualified in separate-package mode"),
 ("m13b", ["C13"], "field_build_context.go", "\tname := c.MessageBuildContext.GetName() + \"_\" + c.GetName()\n\n\tif c.config.DefaultPackageName == \"\" {\n\t\treturn name\n\t}\n\n\treturn c.config.DefaultPackageName + \".\" + name\n", "\tname := c.MessageBuildContext.GetName() + \"_\" + c.GetName()\n\n\treturn name\n", "oneof wrapper types are not package-qualified"),
 ("m14a", ["C14"], "field_build_context.go", "\tv, ok := c.config.Validators[c.GetPath()]\n\tif !ok {\n\t\tv, ok = c.config.Validators[c.GetNameWithTypeName()]\n\t}\n\n\tif ok {\n\t\treturn v\n\t}\n",
  "\tv, ok := c.config.Validators[c.GetPath()]\n\tif !ok {\n\t\tv, ok = c.config.Validators[c.GetNameWithTypeName()]\n\t}\n\n\tif ok {\n\t\tset := map[string]struct{}{}\n\t\tfor _, x := range v {\n\t\t\tset[x] = struct{}{}\n\t\t}\n\t\tout := []string{}\n\t\tfor x := range set {\n\t\t\tout = append(out, x)\n\t\t}\n\t\treturn out\n\t}\n", "validators are de-duplicated through a map and emitted in map iteration order"),
 ("m15a", ["C15"], "message.go", "\tif c.config.Sort {\n\t\tsort.Strings(oneOfNames)\n\t}\n", "\t_ = sort.Strings\n", "oneof reset statements follow declaration order although sort is on"),
 ("m15b", ["C15"], "plugin.go", "\tif p.Config.Sort {\n\t\tsort.Slice(p.Messages, func(i, j int) bool {\n\t\t\treturn p.Messages[i].Name < p.Messages[j].Name\n\t\t})\n\t}\n", "\t_ = sort.Slice\n", "messages are not sorted when sort is on"),
 ("m16a", ["C16"], "config.go", "c.ComputedFields = c.getSliceParam(\"computed_fields\", c.ComputedFields)", "c.ComputedFields = c.getSliceParam(\"computed\", c.ComputedFields)", "computed_fields is no longer accepted as a plugin parameter"),
 ("m16b", ["C16"], "config.go", "\tp := strings.TrimSpace(c.params[name])\n\tif p == \"\" {\n\t\treturn d\n\t}\n\treturn p\n", "\tp := strings.TrimSpace(c.params[name])\n\tif p == \"\" || d != \"\" {\n\t\treturn d\n\t}\n\treturn p\n", "a YAML string value wins over the command-line value"),
 ("m17a", ["C17"], "gen_copy_to.go", "j.Id(\"diags\"), j.Id(\"obj.\"+f.Name), j.Id(\"t\"), j.Id(\"tf.Attrs\").Index(j.Lit(f.NameSnake)),", "j.Id(\"diags\"), j.Id(\"obj.\"+f.Name), j.Id(\"t\"), j.Nil(),", "CopyTo<S> never receives the current attribute value"),
 ("m17b", ["C17", "C10"], "gen_schema.go", "\tif f.Kind == CustomKind {\n\t\treturn j.Id(\"GenSchema\"+f.Suffix).Call(j.Id(\"ctx\"), j.Id(f.i.WithPackage(SDK, \"Attribute\")).Values(d))\n\t}", "\tif f.Kind == CustomKind {\n\t\tdelete(d, j.Id(\"Sensitive\"))\n\t\treturn j.Id(\"GenSchema\"+f.Suffix).Call(j.Id(\"ctx\"), j.Id(f.i.WithPackage(SDK, \"Attribute\")).Values(d))\n\t}", "placeholder: see below"),
 ("m18a", ["C18"], "field.go", "\t\tf, err := BuildField(c)\n\t\tif err != nil {\n\t\t\treturn nil, trace.Wrap(err)\n\t\t}\n", "\t\tf, err := BuildField(c)\n\t\tif err != nil {\n\t\t\tcontinue\n\t\t}\n", "an unmappable field is silently skipped and the converter is still generated"),
 ("m18b", ["C18"], "plugin.go", "\t\t\tlog.WithError(err).Warningf(\"failed to build the message %v\", message.GetName())\n", "", "no diagnostic is logged for a skipped type"),
 ("m20a", ["C20", "C09"], "gen_copy_to.go", "\t\t\tj.Id(\"v.Null\").Op(\"=\").False(),\n\t\t\tj.Id(\"v.Value\").Op(\"=\").Id(f.i.WithType(f.GoElemTypeIndirect)).Parens(j.Op(\"*\").Add(j.Id(fieldName))),", "\t\t\tj.Id(\"v.Value\").Op(\"=\").Id(f.i.WithType(f.GoElemTypeIndirect)).Parens(j.Op(\"*\").Add(j.Id(fieldName))),", "pointer-backed attributes never get Null cleared (equivalent on an empty target; only a refresh nil -> set shows it)"),
 ("m20b", ["C20"], "gen_copy_to.go", "\t\t\t\t\tj.Id(\"Null\"):     j.True(),\n", "\t\t\t\t\tj.Id(\"Null\"):     j.False(),\n", "a nil list or map is rendered as a known empty collection instead of null"),
 ("m20c", ["C20"], "gen_copy_to.go", "\t\tif f.IsPlaceholder {\n\t\t\tg.Id(\"v.Null\").Op(\"=\").True()\n\t\t\treturn\n\t\t}\n", "\t\tif f.IsPlaceholder {\n\t\t\tg.Id(\"v.Null\").Op(\"=\").False()\n\t\t\treturn\n\t\t}\n", "the placeholder attribute of an empty message is rendered non-null"),
]

def main():
    os.makedirs(OUT, exist_ok=True)
    meta = []
    for (mid, props, fn, old, new, what) in M:
        if mid == "m17b":
            continue
        d = tempfile.mkdtemp(prefix="verif-mut-", dir="/var/tmp")
        try:
            subprocess.check_call(["git", "-C", REPO, "worktree", "add", "-q", "--detach", d + "/wt", "HEAD"])
            p = os.path.join(d, "wt", fn)
            s = open(p).read()
            if s.count(old) != 1:
                print("MUTANT %s: anchor found %d times in %s" % (mid, s.count(old), fn)); continue
            open(p, "w").write(s.replace(old, new))
            subprocess.call(["gofmt", "-w", p])
            diff = subprocess.check_output(["git", "-C", d + "/wt", "diff"]).decode()
            env = dict(os.environ, GOFLAGS="-mod=mod", GOPROXY="off", GOSUMDB="off", GOTOOLCHAIN="local")
            b = subprocess.run("go build ./... && go test -vet=off -count=1 ./...", shell=True, cwd=d + "/wt", env=env, capture_output=True, text=True)
            ok = b.returncode == 0
            open(os.path.join(OUT, mid + ".patch"), "w").write(diff)
            meta.append({"id": mid, "properties": props, "file": fn, "what": what, "builds_and_passes_baseline": ok})
            print(mid, "ok" if ok else "DOES NOT BUILD/PASS:\n" + b.stdout[-800:] + b.stderr[-800:])
        finally:
            subprocess.call(["git", "-C", REPO, "worktree", "remove", "--force", d + "/wt"])
            shutil.rmtree(d, ignore_errors=True)
    json.dump(meta, open(os.path.join(OUT, "mutants.json"), "w"), indent=1)

if __name__ == "__main__":
    main()
