#!/bin/sh
# Sensitivity: applies one mutant (or any patch file) to a scratch worktree of /repo and runs the quick
# checks of the given properties against it. Prints one line per property; a caught mutant exits 1 there.
# usage: tools/mutate.sh <patch-file> <prop> [<prop>...]
ROOT=$(cd "$(dirname "$0")/.." && pwd)
patch=$(cd "$(dirname "$1")" && pwd)/$(basename "$1"); shift
d=$(mktemp -d /var/tmp/verif-mutrun-XXXXXX)
git -C /repo worktree add -q --detach "$d/wt" HEAD || exit 2
trap 'git -C /repo worktree remove --force "$d/wt" >/dev/null 2>&1; rm -rf "$d"' EXIT
if ! git -C "$d/wt" apply "$patch" 2>/dev/null && ! git -C "$d/wt" apply --3way "$patch"; then echo "$(basename $patch): patch does not apply"; exit 2; fi
for p in "$@"; do
  VERIF_REDUCETIME=${VERIF_REDUCETIME:-0s} VERIF_SHRINKTIME=${VERIF_SHRINKTIME:-5s} VERIF_REPO="$d/wt" VERIF_EVIDENCE_DIR="$d/evidence" VERIF_NEWDIR="$d/new" "$ROOT/check" $p quick > "$d/out-$p.log" 2>&1
  code=$?
  msg=$(grep -B1 '^VIOLATION' "$d/out-$p.log" | head -1 | cut -c1-220)
  echo "$(basename $patch) $p exit=$code $msg"
done
