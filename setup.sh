#!/bin/sh
# Offline setup: builds the driver and warms the build cache for the harness packages.
set -e
export GOFLAGS=-mod=mod GOPROXY=off GOSUMDB=off GOTOOLCHAIN=local
cd /verif/harness
mkdir -p /verif/bin
go build -o /verif/bin/check ./cmd/check
go build ./...
go test -c -vet=off -o /verif/bin/verif.test ./props
go build -o /verif/bin/protoc-gen-gogo github.com/gogo/protobuf/protoc-gen-gogo
echo setup ok
