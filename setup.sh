#!/bin/sh
# Offline setup: builds the driver and warms the build cache for the harness packages.
set -e
ROOT=$(cd "$(dirname "$0")" && pwd)
export GOFLAGS=-mod=mod GOPROXY=off GOSUMDB=off GOTOOLCHAIN=local
cd "$ROOT/harness"
mkdir -p "$ROOT/bin"
go build -o "$ROOT/bin/check" ./cmd/check
go build ./...
go test -c -vet=off -o "$ROOT/bin/verif.test" ./props
go build -o "$ROOT/bin/protoc-gen-gogo" github.com/gogo/protobuf/protoc-gen-gogo
# warms the dependency build cache the case builds are seeded from (bin/gocache-deps-*) by replaying one saved case
"$ROOT/check" C03 --replay "$ROOT/replays/C03/fixture-test-proto.json" >/dev/null || echo "note: warm-up replay did not pass (the checks will report why)"
echo setup ok
