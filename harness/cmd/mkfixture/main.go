// Command mkfixture turns the repository's own example (test/test.proto as protoc compiled it, embedded in
// test/test.pb.go, with the options of test/config.yaml) into replay files, so that every run-time check also
// runs on the schema the maintainers test with.
//
//	mkfixture <repo> <verif root>
package main

import (
	"encoding/json"
	"fmt"
	"os"
	"path/filepath"

	"verif/desc"
	"verif/ir"
)

func main() {
	repo, root := os.Args[1], os.Args[2]
	fd, err := desc.EmbeddedDescriptor(filepath.Join(repo, "test", "test.pb.go"))
	if err != nil {
		fmt.Fprintln(os.Stderr, err)
		os.Exit(1)
	}
	f := &ir.File{Name: "test.proto", Package: "v0",
		CastTypes:   map[string]string{"Duration": "int64"},
		CustomTypes: map[string]string{"BoolCustom": "bool"}}
	for _, e := range fd.EnumType {
		en := &ir.Enum{Name: e.GetName()}
		for _, v := range e.Value {
			en.Values = append(en.Values, ir.EnumValue{Name: v.GetName(), Number: v.GetNumber()})
		}
		f.Enums = append(f.Enums, en)
	}
	for _, d := range fd.MessageType {
		m, err := desc.ToIR(d)
		if err != nil {
			fmt.Fprintln(os.Stderr, err)
			os.Exit(1)
		}
		for _, fl := range m.Fields {
			fl.Comment.Leading = " " + fl.Name + " field of the repository's fixture\n"
		}
		f.Messages = append(f.Messages, m)
	}
	const sp = "verif/support."
	cfg := &ir.Config{
		Types: []string{"Test"}, DurationCustomType: "Duration", UseStateForUnknown: true, Sort: true,
		ExcludeFields: []string{"Test.Excluded"}, ComputedFields: []string{"Test.Str"}, RequiredFields: []string{"Test.Str"},
		SensitiveFields: []string{"Test.Str"}, Suffixes: map[string]string{"BoolCustom": "BoolSpecial"},
		NameOverrides:  map[string]string{"Test.Str": "str"},
		TimeType:       &ir.SchemaType{Type: sp + "TimeType", ValueType: sp + "TimeValue", CastToType: "time.Time", CastFromType: "time.Time", TypeConstructor: sp + "UseTime()"},
		DurationType:   &ir.SchemaType{Type: sp + "DurationType", ValueType: sp + "DurationValue", CastToType: "time.Duration", CastFromType: "time.Duration"},
		InjectedFields: map[string][]ir.InjectedField{"Test": {{Name: "id", Type: "github.com/hashicorp/terraform-plugin-framework/types.StringType", Computed: true}}},
		PlanModifiers:  map[string][]string{"Test.Str": {"github.com/hashicorp/terraform-plugin-framework/tfsdk.UseStateForUnknown()"}},
		Validators:     map[string][]string{"Test.Str": {sp + "V(1)"}},
		CustomTypes:    map[string]string{"Test.StringOverride": "StringCustom"},
	}
	lay := &ir.Layout{Variant: "v0", StructPath: ir.Module + "/v0/v0", StructName: "v0", StructDir: "v0/v0",
		TargetName: "v0", TargetPath: ir.Module + "/v0/v0", TargetDir: "v0/v0", QualifiedTF: true}
	variant := map[string]interface{}{"layout": lay, "file": f, "config": cfg}
	for _, prop := range []string{"C01", "C02", "C03", "C04", "C05", "C06", "C07", "C08", "C09", "C10", "C17", "C19", "C20"} {
		rp := map[string]interface{}{"prop": prop, "message": "", "variants": []interface{}{variant},
			"extra": map[string]interface{}{"inner_seed": 11, "inner_checks": 300}}
		b, _ := json.MarshalIndent(rp, "", " ")
		dir := filepath.Join(root, "replays", prop)
		_ = os.MkdirAll(dir, 0o755)
		if err := os.WriteFile(filepath.Join(dir, "fixture-test-proto.json"), append(b, '\n'), 0o644); err != nil {
			fmt.Fprintln(os.Stderr, err)
			os.Exit(1)
		}
	}
}
