// Command check is the driver of every registered check:
//
//	check <ID> [quick|thorough]      run a property
//	check <ID> --replay <file>       re-run one saved case
//
// Exit 0: held on everything explored; 1: "VIOLATION property=<ID> replay=<path>";
// 2: inconclusive or broken machinery (never a verdict).
package main

import (
	"crypto/sha256"
	"encoding/hex"
	"encoding/json"
	"fmt"
	"os"
	"os/exec"
	"path/filepath"
	"sort"
	"strconv"
	"strings"
	"sync"
	"sync/atomic"
	"syscall"
	"time"

	"verif/pipeline"
	"verif/props"
)

type budget struct {
	checks int // outer cases in total
	shards int
	inner  int // inner cases per root type and compiled case
}

type propInfo struct {
	quick, thorough budget
	rule            string
	assumptions     []string
}

var verifRoot = func() string {
	if r := os.Getenv("VERIF_ROOT"); r != "" {
		return r
	}
	return "/verif"
}()

func usage() {
	fmt.Fprintln(os.Stderr, "usage: check <ID> [quick|thorough] | check <ID> --replay <file>")
	os.Exit(2)
}

func envInt(name string, def uint64) uint64 {
	if s := os.Getenv(name); s != "" {
		if v, err := strconv.ParseUint(s, 10, 64); err == nil {
			return v
		}
	}
	return def
}

func main() {
	if len(os.Args) < 2 {
		usage()
	}
	id := os.Args[1]
	info, ok := table[id]
	if !ok {
		fmt.Fprintf(os.Stderr, "unknown property %s\n", id)
		os.Exit(2)
	}
	tier := os.Getenv("VERIF_TIER")
	replay := ""
	for i := 2; i < len(os.Args); i++ {
		switch os.Args[i] {
		case "quick", "thorough":
			tier = os.Args[i]
		case "--replay":
			if i+1 >= len(os.Args) {
				usage()
			}
			replay = os.Args[i+1]
			if !filepath.IsAbs(replay) {
				base := os.Getenv("VERIF_CWD")
				if base == "" {
					base = verifRoot
				}
				replay = filepath.Join(base, replay)
			}
			i++
		default:
			usage()
		}
	}
	if tier != "thorough" {
		tier = "quick"
	}
	seed := envInt("VERIF_SEED", 1)
	if seed == 0 {
		seed = 0x5eed // rapid treats 0 as "random"
	}
	os.Exit(run(id, info, tier, seed, replay))
}

func gitInfo(repo string) (string, bool) {
	out, err := exec.Command("git", "-C", repo, "rev-parse", "HEAD").Output()
	head := strings.TrimSpace(string(out))
	if err != nil {
		head = "unknown"
	}
	st, _ := exec.Command("git", "-C", repo, "status", "--porcelain").Output()
	return head, len(strings.TrimSpace(string(st))) > 0
}

func run(id string, info propInfo, tier string, seed uint64, replay string) int {
	start := time.Now()
	repo := pipeline.RepoDir()
	scratch := filepath.Join(pipeline.ScratchRoot(), fmt.Sprintf("verif-%d", os.Getpid()))
	if err := os.MkdirAll(scratch, 0o755); err != nil {
		fmt.Fprintln(os.Stderr, "scratch:", err)
		return 2
	}
	defer os.RemoveAll(scratch)
	coverDir := ""
	if id == "C01" && tier == "thorough" && replay == "" {
		coverDir = filepath.Join(scratch, "cover")
		_ = os.MkdirAll(coverDir, 0o755)
		os.Setenv("VERIF_COVER", "1")
		os.Setenv("VERIF_COVERDIR", coverDir)
	}
	tools, err := pipeline.BuildTools(repo, filepath.Join(scratch, "tools"))
	if err != nil {
		fmt.Fprintln(os.Stderr, err)
		return 2
	}
	testBin := filepath.Join(scratch, "verif.test")
	cmd := exec.Command("go", "test", "-c", "-vet=off", "-o", testBin, "./props")
	cmd.Dir = pipeline.HarnessDir()
	cmd.Env = pipeline.GoEnv()
	if out, err := cmd.CombinedOutput(); err != nil {
		fmt.Fprintf(os.Stderr, "building the outer harness: %v\n%s\n", err, out)
		return 2
	}
	if id == "C01" {
		// the synthetic descriptor builder must still reproduce protoc's descriptor of test.proto
		ft := exec.Command("go", "test", "-count=1", "-run", "^TestFidelity$", "./desc")
		ft.Dir = pipeline.HarnessDir()
		ft.Env = append(pipeline.GoEnv(), "VERIF_REPO="+repo)
		if out, err := ft.CombinedOutput(); err != nil {
			fmt.Fprintf(os.Stderr, "descriptor-builder fidelity test failed (harness fault, no verdict):\n%s\n", out)
			return 2
		}
	}
	baseEnv := append(os.Environ(),
		"VERIF_PLUGIN="+tools.Plugin, "VERIF_GOGO="+tools.Gogo, "VERIF_REPO="+repo,
		"VERIF_SCRATCH="+scratch, "VERIF_TIER="+tier)

	if deps := ensureDepsCache(testBin, baseEnv, scratch); deps != "" {
		baseEnv = append(baseEnv, "VERIF_GOCACHE_DEPS="+deps)
	}

	kf := loadFindings()
	var knownLines []string
	exclude := []string{}
	// Probes. A fixed finding's probe belongs to the regression tier of its property and must
	// pass. A known finding's probe is run for every property (its shape would break other
	// checks too): while it still fails the shape is excluded from generation by construction
	// and, for the finding's own property, a KNOWN-FINDING line is printed.
	var probes []string
	for _, f := range kf.Findings {
		if f.Probe == "" || (f.Status != "known" && f.Property != id) {
			continue
		}
		probes = append(probes, filepath.Join(verifRoot, f.Probe))
	}
	probeRes := runReplays(testBin, baseEnv, scratch, probes)
	for _, f := range kf.Findings {
		if f.Probe == "" || (f.Status != "known" && f.Property != id) {
			continue
		}
		probe := filepath.Join(verifRoot, f.Probe)
		st, msg := probeRes[probe].st, probeRes[probe].msg
		switch {
		case st == 2:
			fmt.Fprintf(os.Stderr, "probe %s inconclusive: %s\n", f.Probe, msg)
			return 2
		case f.Status == "known" && st == 1:
			if f.Property == id {
				knownLines = append(knownLines, fmt.Sprintf("KNOWN-FINDING: property=%s %s (%s, probe %s)", id, f.What, f.ID, f.Probe))
			}
			if f.Shape != "" {
				exclude = append(exclude, f.Shape)
			}
		case f.Status == "fixed" && st == 1:
			fmt.Printf("regression of fixed finding %s: %s\n", f.ID, msg)
			fmt.Printf("VIOLATION property=%s replay=%s\n", id, probe)
			writeEvidence(id, tier, seed, info, nil, time.Since(start), 1, tools, repo, exclude)
			return 1
		}
	}
	for _, l := range knownLines {
		fmt.Println(l)
	}
	if x := os.Getenv("VERIF_EXCLUDE_EXTRA"); x != "" { // experiments only
		exclude = append(exclude, strings.Split(x, ",")...)
	}
	baseEnv = append(baseEnv, "VERIF_EXCLUDE="+strings.Join(exclude, ","))

	if replay != "" {
		st, msg := runReplay(testBin, baseEnv, scratch, replay)
		switch st {
		case 0:
			fmt.Printf("replay %s: property %s holds on this case\n", replay, id)
		case 1:
			fmt.Println(msg)
			fmt.Printf("VIOLATION property=%s replay=%s\n", id, replay)
		default:
			fmt.Fprintln(os.Stderr, msg)
		}
		return st
	}

	// regression tier: every saved replay of this property
	saved, _ := filepath.Glob(filepath.Join(verifRoot, "replays", id, "*.json"))
	sort.Strings(saved)
	probeSet := map[string]bool{}
	for _, f := range kf.For(id) {
		probeSet[filepath.Join(verifRoot, f.Probe)] = true
	}
	var regress []string
	for _, s := range saved {
		if !probeSet[s] {
			regress = append(regress, s)
		}
	}
	regressRes := runReplays(testBin, baseEnv, scratch, regress)
	for _, s := range regress {
		st, msg := regressRes[s].st, regressRes[s].msg
		if st == 1 {
			fmt.Println(msg)
			fmt.Printf("VIOLATION property=%s replay=%s\n", id, s)
			writeEvidence(id, tier, seed, info, nil, time.Since(start), 1, tools, repo, exclude)
			return 1
		}
		if st == 2 {
			fmt.Fprintf(os.Stderr, "saved replay %s inconclusive: %s\n", s, msg)
			return 2
		}
	}

	b := info.quick
	if tier == "thorough" {
		b = info.thorough
	}
	if n := envInt("VERIF_SHARDS", 0); n > 0 {
		b.shards = int(n)
	}
	if n := envInt("VERIF_CHECKS", 0); n > 0 {
		b.checks = int(n)
	}
	per := (b.checks + b.shards - 1) / b.shards
	shrink := os.Getenv("VERIF_SHRINKTIME")
	if shrink == "" {
		shrink = "60s"
	}
	newDir := filepath.Join(verifRoot, "replays", id, "new")
	if d := os.Getenv("VERIF_NEWDIR"); d != "" { // sensitivity runs keep their replays out of the tree
		newDir = filepath.Join(d, id)
	}
	shards := make([]*props.Shard, b.shards)
	outputs := make([]string, b.shards)
	status := make([]int, b.shards)
	timedOut := make([]bool, b.shards)
	shardTimeout := 25 * time.Minute
	if tier == "thorough" {
		shardTimeout = 4 * time.Hour
	}
	var wg sync.WaitGroup
	for i := 0; i < b.shards; i++ {
		wg.Add(1)
		go func(i int) {
			defer wg.Done()
			shardSeed := seed*1000003 + uint64(i)*7919 + 1
			out := filepath.Join(scratch, fmt.Sprintf("shard-%d.json", i))
			c := exec.Command(testBin, "-test.run", "^Test"+id+"$", "-test.count=1", "-test.timeout", "0",
				fmt.Sprintf("-rapid.checks=%d", per), fmt.Sprintf("-rapid.seed=%d", shardSeed), "-rapid.nofailfile",
				"-rapid.shrinktime="+shrink)
			c.Dir = scratch
			c.Env = append(append([]string{}, baseEnv...), "VERIF_SHARD_OUT="+out, fmt.Sprintf("VERIF_SHARD=%d", i),
				"VERIF_REPLAY_DIR="+newDir, fmt.Sprintf("VERIF_SEED_EFFECTIVE=%d", shardSeed),
				fmt.Sprintf("VERIF_INNER=%d", b.inner))
			var buf strings.Builder
			c.Stdout, c.Stderr = &buf, &buf
			err := c.Start()
			if err == nil {
				done := make(chan error, 1)
				go func() { done <- c.Wait() }()
				select {
				case err = <-done:
				case <-time.After(shardTimeout):
					// a hang is a fault of the machinery, never a verdict: dump the stacks and give up
					_ = c.Process.Signal(syscall.SIGQUIT)
					select {
					case <-done:
					case <-time.After(20 * time.Second):
						_ = c.Process.Kill()
						<-done
					}
					timedOut[i] = true
					err = fmt.Errorf("timeout")
				}
			}
			outputs[i] = buf.String()
			if err != nil {
				status[i] = 1
			}
			if bts, err := os.ReadFile(out); err == nil {
				var s props.Shard
				if json.Unmarshal(bts, &s) == nil {
					shards[i] = &s
				}
			}
		}(i)
	}
	wg.Wait()

	// engine F: after the rapid shards of a thorough run of C04/C05/C06/C08/C09, one native fuzz campaign (all cores, time-boxed)
	if props.FuzzProps[id] && tier == "thorough" {
		out := filepath.Join(scratch, "shard-fuzz.json")
		c := exec.Command(testBin, "-test.run", "^TestFuzzCampaign$", "-test.count=1", "-test.timeout", "0")
		c.Dir = scratch
		c.Env = append(append([]string{}, baseEnv...), "VERIF_FUZZ=1", "VERIF_FUZZ_PROP="+id, "VERIF_SHARD_OUT="+out, "VERIF_SHARD=fuzz", "VERIF_REPLAY_DIR="+newDir,
			"VERIF_ROOT="+verifRoot)
		o, err := c.CombinedOutput()
		var fs props.Shard
		if bts, rerr := os.ReadFile(out); rerr == nil && json.Unmarshal(bts, &fs) == nil {
			if fs.Infra == "" && (err == nil || fs.Violation != "") {
				shards = append(shards, &fs)
				outputs = append(outputs, string(o))
				st := 0
				if err != nil {
					st = 1
				}
				status = append(status, st)
				timedOut = append(timedOut, false)
			}
		}
	}
	code := 0
	var violMsg, violReplay string
	for i, s := range shards {
		if timedOut[i] {
			fmt.Fprintf(os.Stderr, "shard %d timed out (inconclusive); goroutines of the harness:\n%s\n", i, grepLines(outputs[i], "verif/", 25))
			code = 2
			continue
		}
		if s == nil {
			fmt.Fprintf(os.Stderr, "shard %d produced no result (worker died?):\n%s\n", i, lastLines(outputs[i], 30))
			code = 2
			continue
		}
		if s.Infra != "" {
			fmt.Fprintf(os.Stderr, "shard %d: %s\n", i, s.Infra)
			if code == 0 {
				code = 2
			}
		}
		if s.Violation != "" && violMsg == "" {
			violMsg, violReplay = s.Violation, s.Replay
		}
		if status[i] != 0 && s.Violation == "" && s.Infra == "" {
			fmt.Fprintf(os.Stderr, "shard %d failed without a recorded violation (harness fault or non-reproducible failure):\n%s\n", i, lastLines(filterDraws(outputs[i]), 40))
			if code == 0 {
				code = 2
			}
		}
	}
	// A check that could not judge most of its cases (the plugin failed or its output did not
	// build: C01's business) is inconclusive, not green.
	skipped, evals := 0, 0
	for _, s := range shards {
		if s == nil {
			continue
		}
		evals += s.Evaluations
		for k, n := range s.Classes {
			if strings.HasPrefix(k, "skipped:plugin_failed") || strings.HasPrefix(k, "skipped:uncompilable") {
				skipped += n
			}
		}
	}
	if code == 0 && violMsg == "" && evals > 0 && skipped*10 > evals*3 {
		fmt.Fprintf(os.Stderr, "inconclusive: the plugin failed or its output did not build in %d of %d cases (see C01)\n", skipped, evals)
		code = 2
	}
	violations := 0
	if violMsg != "" {
		violations = 1
		code = 1
		// keep the replay under a stable name
		final := filepath.Join(newDir, fmt.Sprintf("violation-seed%d.json", seed))
		if b, err := os.ReadFile(violReplay); err == nil {
			_ = os.WriteFile(final, b, 0o644)
			violReplay = final
		}
		fmt.Println(violMsg)
		fmt.Printf("VIOLATION property=%s replay=%s\n", id, violReplay)
	}
	if coverDir != "" {
		if keep := os.Getenv("VERIF_KEEP_COVER"); keep != "" {
			_ = exec.Command("cp", "-r", coverDir, keep).Run()
		}
		c := exec.Command("go", "tool", "covdata", "percent", "-i="+coverDir)
		c.Env = pipeline.GoEnv()
		if out, err := c.Output(); err == nil {
			coverageNote = strings.TrimSpace(string(out))
		} else {
			coverageNote = "covdata failed: " + err.Error()
		}
	}
	writeEvidence(id, tier, seed, info, shards, time.Since(start), violations, tools, repo, exclude)
	if code == 0 {
		fmt.Printf("property %s held on everything explored (%s tier, seed %d)\n", id, tier, seed)
	}
	return code
}

func filterDraws(s string) string {
	var out []string
	for _, l := range strings.Split(s, "\n") {
		if strings.Contains(l, "[rapid] draw") {
			continue
		}
		out = append(out, l)
	}
	return strings.Join(out, "\n")
}

func grepLines(s, needle string, n int) string {
	var out []string
	for _, l := range strings.Split(s, "\n") {
		if strings.Contains(l, needle) && len(out) < n {
			out = append(out, l)
		}
	}
	return strings.Join(out, "\n")
}

func lastLines(s string, n int) string {
	ls := strings.Split(strings.TrimRight(s, "\n"), "\n")
	if len(ls) > n {
		ls = ls[len(ls)-n:]
	}
	return strings.Join(ls, "\n")
}

// runReplay runs one saved case; returns 0 held, 1 violated (msg), 2 inconclusive.
var replaySeq int64

type replayResult struct {
	st  int
	msg string
}

// runReplays runs the given replay files (each in a process of its own), up to eight at a time.
func runReplays(testBin string, env []string, scratch string, files []string) map[string]replayResult {
	res := make(map[string]replayResult, len(files))
	var mu sync.Mutex
	var wg sync.WaitGroup
	sem := make(chan struct{}, 8)
	for _, f := range files {
		wg.Add(1)
		go func(f string) {
			defer wg.Done()
			sem <- struct{}{}
			defer func() { <-sem }()
			st, msg := runReplay(testBin, env, scratch, f)
			mu.Lock()
			res[f] = replayResult{st, msg}
			mu.Unlock()
		}(f)
	}
	wg.Wait()
	return res
}

func runReplay(testBin string, env []string, scratch, file string) (int, string) {
	out := filepath.Join(scratch, fmt.Sprintf("replay-%d-%d.json", time.Now().UnixNano(), atomic.AddInt64(&replaySeq, 1)))
	c := exec.Command(testBin, "-test.run", "^TestReplay$", "-test.count=1", "-test.timeout", "30m")
	c.Dir = scratch
	c.Env = append(append([]string{}, env...), "VERIF_REPLAY_FILE="+file, "VERIF_SHARD_OUT="+out)
	o, err := c.CombinedOutput()
	var s props.Shard
	if b, rerr := os.ReadFile(out); rerr == nil && json.Unmarshal(b, &s) == nil {
		if s.Infra != "" {
			return 2, s.Infra
		}
		if s.Violation != "" {
			return 1, s.Violation
		}
		if err == nil {
			return 0, ""
		}
	}
	return 2, "replay run failed: " + lastLines(string(o), 20)
}

type finding struct {
	ID       string `json:"id"`
	Property string `json:"property"`
	Status   string `json:"status"` // known | fixed
	Commit   string `json:"commit,omitempty"`
	What     string `json:"what"`
	Shape    string `json:"shape,omitempty"`
	Probe    string `json:"probe"`
}

type findings struct {
	Findings []finding `json:"findings"`
}

func loadFindings() *findings {
	var f findings
	b, err := os.ReadFile(filepath.Join(verifRoot, "known_findings.json"))
	if err == nil {
		_ = json.Unmarshal(b, &f)
	}
	return &f
}

func (f *findings) For(id string) []finding {
	var out []finding
	for _, x := range f.Findings {
		if x.Property == id && x.Probe != "" {
			out = append(out, x)
		}
	}
	return out
}

// coverageNote holds the output of `go tool covdata percent` for thorough C01 runs (engine cov).
var coverageNote string

func writeEvidence(id, tier string, seed uint64, info propInfo, shards []*props.Shard, wall time.Duration, violations int, tools *pipeline.Tools, repo string, exclude []string) {
	evals, inner := 0, 0
	distinct := map[uint64]bool{}
	classes := map[string]int{}
	excluded := map[string]int{}
	var samples []json.RawMessage
	for _, s := range shards {
		if s == nil {
			continue
		}
		evals += s.Evaluations
		inner += s.Inner
		for _, h := range s.Nontrivial {
			distinct[h] = true
		}
		for k, v := range s.Classes {
			classes[k] += v
		}
		for k, v := range s.Excluded {
			excluded[k] += v
		}
		for _, sm := range s.Samples {
			if len(samples) < 4 || strings.Contains(string(sm), "rapid.MakeFuzz") { // the fuzz campaign's summary is always kept
				samples = append(samples, sm)
			}
		}
	}
	if samples == nil {
		samples = []json.RawMessage{}
	}
	head, dirty := gitInfo(repo)
	cov := map[string]interface{}{
		"evaluations":               evals,
		"inner_evaluations":         inner,
		"distinct_nontrivial":       len(distinct),
		"rule":                      info.rule,
		"samples":                   samples,
		"classes":                   classes,
		"excluded_by_known_finding": excluded,
		"excluded_shapes":           exclude,
		"plugin_sha256":             tools.PluginSHA,
		"repo_head":                 head,
		"repo_dirty":                dirty,
	}
	if coverageNote != "" {
		cov["plugin_statement_coverage"] = coverageNote
	}
	ev := map[string]interface{}{
		"property_id": id,
		"tier":        tier,
		"seed":        seed,
		"level":       "exploration",
		"coverage":    cov,
		"assumptions": append([]string{
			"Go toolchain, terraform-plugin-framework v0.10.0, protoc-gen-gogo v1.3.2 and go-strcase are trusted",
			"descriptors are synthesised from the IR instead of being produced by protoc (no protoc in the sandbox); conventions pinned by the fidelity test",
			"absence of violations is only established for the generated cases of the stated distribution (DESIGN.md §3)",
		}, info.assumptions...),
		"wall_s":     wall.Seconds(),
		"violations": violations,
	}
	b, _ := json.MarshalIndent(ev, "", " ")
	evDir := filepath.Join(verifRoot, "evidence")
	if d := os.Getenv("VERIF_EVIDENCE_DIR"); d != "" { // sensitivity runs must not overwrite the evidence of the real tree
		evDir = d
	}
	_ = os.MkdirAll(evDir, 0o755)
	_ = os.WriteFile(filepath.Join(evDir, id+".json"), append(b, '\n'), 0o644)
}

// ensureDepsCache returns a warmed Go build cache that holds what every compiled case shares (standard library,
// terraform-plugin-framework, gogo/protobuf, rapid, the harness's run-time packages); case builds seed their private,
// recycled GOCACHE from it (pipeline/gocache.go). It lives under <verif>/bin, is named after the harness sources
// it was built from, and is created on first use by compiling the repository's fixture case. Any failure here only
// costs build time: "" makes the case builds fall back to the environment's cache.
func ensureDepsCache(testBin string, env []string, scratch string) string {
	if os.Getenv("VERIF_SHARED_GOCACHE") != "" {
		return ""
	}
	h := sha256.New()
	hd := pipeline.HarnessDir()
	for _, pat := range []string{"go.mod", "go.sum", "rt/*.go", "support/*.go", "model/*.go", "ir/*.go"} {
		files, _ := filepath.Glob(filepath.Join(hd, pat))
		sort.Strings(files)
		for _, f := range files {
			b, _ := os.ReadFile(f)
			fmt.Fprintf(h, "%s %d\n", filepath.Base(f), len(b))
			h.Write(b)
		}
	}
	if v, err := exec.Command("go", "version").Output(); err == nil {
		h.Write(v)
	}
	bin := filepath.Join(verifRoot, "bin")
	dir := filepath.Join(bin, "gocache-deps-"+hex.EncodeToString(h.Sum(nil))[:12])
	if _, err := os.Stat(filepath.Join(dir, ".warm")); err == nil {
		return dir
	}
	fixture := filepath.Join(verifRoot, "replays", "C03", "fixture-test-proto.json")
	if _, err := os.Stat(fixture); err != nil {
		return ""
	}
	tmp := fmt.Sprintf("%s.tmp-%d", dir, os.Getpid())
	_ = os.RemoveAll(tmp)
	if err := os.MkdirAll(tmp, 0o755); err != nil {
		return ""
	}
	if st, msg := runReplay(testBin, append(append([]string{}, env...), "GOCACHE="+tmp), scratch, fixture); st != 0 {
		fmt.Fprintf(os.Stderr, "note: warming the dependency build cache failed (%s); case builds use the shared cache\n", lastLines(msg, 3))
		_ = os.RemoveAll(tmp)
		return ""
	}
	_ = os.WriteFile(filepath.Join(tmp, ".warm"), []byte(time.Now().Format(time.RFC3339)+"\n"), 0o644)
	if err := os.Rename(tmp, dir); err != nil {
		_ = os.RemoveAll(tmp) // another run was faster
		if _, err := os.Stat(filepath.Join(dir, ".warm")); err != nil {
			return ""
		}
	}
	// warmed caches of older harness sources
	old, _ := filepath.Glob(filepath.Join(bin, "gocache-deps-*"))
	for _, o := range old {
		if fi, err := os.Stat(o); err == nil && o != dir && time.Since(fi.ModTime()) > 6*time.Hour {
			_ = os.RemoveAll(o)
		}
	}
	return dir
}
