package main

var table = map[string]propInfo{
	"C01": {
		quick:    budget{checks: 48, shards: 16},
		thorough: budget{checks: 1500, shards: 16},
		rule: "each case is one (descriptor S in D, configuration K, package layout) drawn by rapid; the real plugin and protoc-gen-gogo are run on the synthesised request and the result is compiled. " +
			"Non-trivial: S uses >= 3 distinct field kinds and >= 1 composite (list/map/message/oneof/embedded). Distinct by 64-bit hash of (S, K, layout).",
	},
}
