package main

const innerRule = " Each compiled case then runs an inner rapid search over struct values / Terraform objects / histories of every selected root type."

var table = map[string]propInfo{
	"C01": {
		quick:    budget{checks: 160, shards: 16},
		thorough: budget{checks: 3600, shards: 16},
		rule: "each case is one (descriptor S in D, configuration K, package layout) drawn by rapid; the real plugin and protoc-gen-gogo are run on the synthesised request and the result is compiled. " +
			"Non-trivial: S uses >= 3 distinct field kinds and >= 1 composite (list/map/message/oneof/embedded). Distinct by 64-bit hash of (S, K, layout).",
	},
	"C02": {
		quick:    budget{checks: 144, shards: 16, inner: 150},
		thorough: budget{checks: 2400, shards: 16, inner: 600},
		rule: "outer: (S, K) drawn by rapid and compiled;" + innerRule + " C02: the run-time schema is compared with the model M(S,K) (names, types, no extra or missing attribute), then single fields are probed with a distinctive value (write probe through CopyTo, read probe through CopyFrom). " +
			"Non-trivial: the probed field is nested, an element, a oneof member, embedded, renamed or cast. Distinct by hash of (root, attribute path, value).",
	},
	"C03": {
		quick:    budget{checks: 144, shards: 16, inner: 300},
		thorough: budget{checks: 1920, shards: 16, inner: 2000},
		rule: "outer: (S, K) drawn by rapid and compiled;" + innerRule + " C03: struct values V(T) are copied into an empty schema-typed object; the result is walked against the schema type and handed to the framework (ToTerraformValue, ValueFromTerraform, State.Set). " +
			"Non-trivial: the value has a nil embedded pointer, an empty non-nil collection, a nil element, a zero-valued oneof payload or depth >= 2. Distinct by hash of the value's normal form.",
	},
	"C04": {
		quick:    budget{checks: 144, shards: 16, inner: 300},
		thorough: budget{checks: 1920, shards: 16, inner: 2000},
		rule: "outer: (S, K) drawn by rapid and compiled;" + innerRule + " C04: NF(CopyFrom(CopyTo(x, empty))) == NF(x) with the documented normal form. " +
			"Non-trivial: >= 1 non-zero leaf below a list/map/oneof/nested message. Distinct by hash of the value's normal form.",
	},
	"C05": {
		quick:    budget{checks: 144, shards: 16, inner: 300},
		thorough: budget{checks: 1920, shards: 16, inner: 2000},
		rule: "outer: (S, K) drawn by rapid and compiled;" + innerRule + " C05: a conforming object (any node null / unknown / known, decoded by the framework from a generated tftypes.Value) and its payload twin (same object, every null/unknown node additionally carries a payload) are copied into a zero struct and into a populated struct; the four results must agree, null/unknown attributes must leave zero fields, excluded fields must stay untouched. " +
			"Non-trivial: the object has a null/unknown node below the root. Distinct by hash of (object, prior target).",
	},
	"C06": {
		quick:    budget{checks: 144, shards: 16, inner: 400},
		thorough: budget{checks: 1920, shards: 16, inner: 3000},
		rule: "outer: (S, K) drawn by rapid and compiled;" + innerRule + " C06: a conforming object is corrupted at any depth (attributes deleted, values replaced by another framework type / a foreign attr.Value / a nil interface, nil Attrs / Elems, wrong-typed list and map elements) and read by CopyFrom; the multiset of error diagnostics is compared with the one computed from the corruption script and the struct with the one read from the object in which the corrupted nodes are null. For CopyTo, subsets of attribute types are removed at every object level (top, nested, list/map element types) and the diagnostics and the remaining attributes are compared with the untouched run. " +
			"Non-trivial: a corruption below the top level or >= 2 corruptions. Distinct by hash of (corrupted object, removed types, source).",
	},
	"C07": {
		quick:    budget{checks: 144, shards: 16, inner: 300},
		thorough: budget{checks: 1920, shards: 16, inner: 2000},
		rule: "outer: oneof-heavy (S, K) drawn by rapid and compiled;" + innerRule + " C07: a history of 1-4 CopyFrom calls of objects with at most one known non-null member per group into one target with arbitrary prior branches, then CopyTo of a generated value into an empty object; holders and null flags of every group at every depth are compared with the statement. " +
			"Non-trivial: a group with >= 2 members or a group below the root was exercised. Distinct by hash of the history.",
	},
	"C08": {
		quick:    budget{checks: 144, shards: 16, inner: 300},
		thorough: budget{checks: 1920, shards: 16, inner: 2000},
		rule: "outer: (S, K) drawn by rapid and compiled;" + innerRule + " C08: plans from P(S) (null / unknown / known incl. known zero values at every node, <= 1 non-null member per oneof, numbers within the Go field's range) are copied into a fresh struct and back into the plan; the result is compared path-wise with the plan and decoded again. " +
			"Non-trivial: the plan mixes >= 1 null, >= 1 unknown and >= 1 known zero node. Distinct by hash of the plan.",
	},
	"C09": {
		quick:    budget{checks: 144, shards: 16, inner: 200},
		thorough: budget{checks: 1920, shards: 16, inner: 1500},
		rule: "outer: (S, K) drawn by rapid and compiled;" + innerRule + " C09: histories of 1-6 in-place CopyTo calls (new values are mutations of the previous one: lists grow, shrink, become empty or nil, maps lose or gain keys, pointers flip) compared after every step with a CopyTo of the same source into an empty object; every step is repeated to check idempotence. " +
			"Non-trivial: some collection changed length or key set between steps. Distinct by hash of the history.",
	},
	"C10": {
		quick:    budget{checks: 160, shards: 16, inner: 1},
		thorough: budget{checks: 3600, shards: 16, inner: 1},
		rule: "each case is one (S with generated comments, K with arbitrary flag subsets, validator / plan-modifier lists, injected fields) compiled and its run-time schema walked against M(S,K). " +
			"Non-trivial: >= 2 different flags set below the root, or a multi-line comment. Distinct by hash of (S, K).",
	},
	"C11": {
		quick:    budget{checks: 144, shards: 16, inner: 100},
		thorough: budget{checks: 2400, shards: 16, inner: 500},
		rule: "each case: S in which messages occur at several paths, a base configuration K0 and K1 = K0 + one entry of one of the seven field-addressed options, keyed by full path or by Message.Field; both are generated, compiled into one binary (sharing the struct package) and compared: each run-time schema against its model (so the entry changed exactly the addressed occurrences), CopyTo on the same values and CopyFrom on the same objects (translated by proto field chain) must agree on every remaining attribute, an excluded field is never written. " +
			"Non-trivial: the addressed Message.Field occurs at >= 2 paths below the selected types. Distinct by hash of (S, K0, entry).",
	},
	"C13": {
		quick:    budget{checks: 144, shards: 16, inner: 200},
		thorough: budget{checks: 1920, shards: 16, inner: 1000},
		rule: "each case: S rich in kinds that need package qualification (cast types, enums, oneof wrappers, embedded, list/map of message, custom types) generated twice: into the struct package and into a package of its own (default_package_name = import path, or a short name with import_path_overrides); both are compiled into one binary sharing the struct package; schemas, CopyTo results, CopyFrom results and diagnostics (also on corrupted objects) must be equal. " +
			"Non-trivial: S has >= 3 qualification-sensitive kinds. Distinct by hash of the case.",
	},
	"C12": {
		quick:    budget{checks: 640, shards: 16},
		thorough: budget{checks: 24000, shards: 16},
		rule: "each case: (S, K with types B), a non-empty subset A of B, extra unrelated messages appended/prepended to the file and 0-2 extra unrelated files (before/after, imported or not); three plugin runs (B, A, A with extensions); function sets by go/ast, per-function source text compared byte for byte. " +
			"Non-trivial: |B| > |A| >= 1 and a non-selected message is referenced by a selected one. Distinct by hash of the case.",
	},
	"C14": {
		quick:    budget{checks: 160, shards: 16},
		thorough: budget{checks: 7200, shards: 16},
		rule: "each case: (S, K with many entries per configuration map); 6 process runs of the same request, 4 YAML re-renderings with shuffled keys and shuffled set-like lists, 2 command-line renderings with shuffled `+` lists and parameter order; all responses compared byte for byte. " +
			"Non-trivial: K has >= 4 keys in at least two maps. Distinct by hash of (S, K).",
		assumptions: []string{"a dependence on Go's randomised map iteration order is detected only probabilistically (it repeats an order with probability about 1/n! per run)"},
	},
	"C15": {
		quick:    budget{checks: 320, shards: 16, inner: 150},
		thorough: budget{checks: 4800, shards: 16, inner: 800},
		rule: "each case: (S, K) and a permutation of message order and of field order within messages (oneof members stay contiguous in 3 of 4 cases and are interleaved with other fields in the rest, numbers/names/memberships kept). sort on (2/3 of the cases): the two responses are compared byte for byte. sort off: both are compiled into one binary and schemas and converter behaviour are compared on the same neutral inputs. " +
			"Non-trivial: the permutation moves a commented field, a oneof block or a message. Distinct by hash of (S, K, permutation).",
	},
	"C16": {
		quick:    budget{checks: 400, shards: 16},
		thorough: budget{checks: 9600, shards: 16},
		rule: "each case: (S, K restricted to the nine two-channel options); the generated file for all-YAML delivery is compared with a drawn split, the all-parameter split and every single-option split; conflicting YAML values under command-line values; sort=false over sort: true; the three failure cases (no types, unreadable config path, unparsable YAML). " +
			"Non-trivial: >= 3 options set and the drawn split puts >= 1 on each channel. Distinct by hash of (S, K, split).",
		assumptions: []string{"for 'sensitive fields' and 'custom duration type' the value is passed under both parameter spellings (code: sensitive / custom_duration, README: sensitive_fields / duration_custom_type); the property names options, not keys"},
	},
	"C17": {
		quick:    budget{checks: 144, shards: 16, inner: 200},
		thorough: budget{checks: 1920, shards: 16, inner: 1000},
		rule: "each case: S with custom-type fields (gogoproto.customtype and custom_types entries; singular, nullable, repeated; at root, nested, list-element and map-value positions; with and without suffixes) compiled against logging generic hooks;" + innerRule + " C17: the GenSchema / CopyFrom / CopyTo hook calls are matched against the custom fields reached (arguments: description and flags, the attribute value and a pointer to the field, the field value, attribute type and current value) and the stored results are the hooks' sentinels; finally the proto type of every custom field is changed and the generated functions must stay byte-identical. " +
			"Non-trivial: a custom field below the root or a repeated one. Distinct by hash of (object, value).",
	},
	"C18": {
		quick:    budget{checks: 400, shards: 16},
		thorough: budget{checks: 19200, shards: 16},
		rule: "each case: (S, K) plus one unmappable field (timestamp/duration without configured time_type/duration_type, map with a non-string key, group) injected into a message at any depth below a selected type, singular / repeated / map / oneof member; three plugin runs (without the field, with it, with it excluded); function sets and per-function texts compared, stderr searched for a warning naming the skipped type. " +
			"Non-trivial: the bad field is at depth >= 2 or behind a list/map/oneof edge. Distinct by hash of the case.",
	},
	"C19": {
		quick:    budget{checks: 96, shards: 16, inner: 500},
		thorough: budget{checks: 1440, shards: 16, inner: 5000},
		rule: "outer: scalar-dense (S, K) drawn by rapid and compiled;" + innerRule + " C19: values drawn from the boundary set of every Go field type (plus random values) must survive CopyTo;CopyFrom exactly. " +
			"Non-trivial: a non-zero leaf in a non-singular shape (element, map value, oneof member, nested). Distinct by hash of the value's normal form.",
	},
	"C20": {
		quick:    budget{checks: 144, shards: 16, inner: 300},
		thorough: budget{checks: 1920, shards: 16, inner: 2000},
		rule: "outer: (S, K) drawn by rapid and compiled;" + innerRule + " C20: values with every leaf zero with probability 1/2; after CopyTo into an empty object the null flag of every attribute outside list/map elements is compared with the field. " +
			"Non-trivial: the value has both zero and non-zero leaves at depth >= 1. Distinct by hash of the value's normal form.",
	},
}
