package main

const innerRule = " Each compiled case then runs an inner rapid search over struct values / Terraform objects / histories of every selected root type."

var table = map[string]propInfo{
	"C01": {
		quick:    budget{checks: 48, shards: 16},
		thorough: budget{checks: 1500, shards: 16},
		rule: "each case is one (descriptor S in D, configuration K, package layout) drawn by rapid; the real plugin and protoc-gen-gogo are run on the synthesised request and the result is compiled. " +
			"Non-trivial: S uses >= 3 distinct field kinds and >= 1 composite (list/map/message/oneof/embedded). Distinct by 64-bit hash of (S, K, layout).",
	},
	"C02": {
		quick:    budget{checks: 32, shards: 16, inner: 150},
		thorough: budget{checks: 400, shards: 16, inner: 600},
		rule: "outer: (S, K) drawn by rapid and compiled;" + innerRule + " C02: the run-time schema is compared with the model M(S,K) (names, types, no extra or missing attribute), then single fields are probed with a distinctive value (write probe through CopyTo, read probe through CopyFrom). " +
			"Non-trivial: the probed field is nested, an element, a oneof member, embedded, renamed or cast. Distinct by hash of (root, attribute path, value).",
	},
	"C03": {
		quick:    budget{checks: 32, shards: 16, inner: 300},
		thorough: budget{checks: 300, shards: 16, inner: 2000},
		rule: "outer: (S, K) drawn by rapid and compiled;" + innerRule + " C03: struct values V(T) are copied into an empty schema-typed object; the result is walked against the schema type and handed to the framework (ToTerraformValue, ValueFromTerraform, State.Set). " +
			"Non-trivial: the value has a nil embedded pointer, an empty non-nil collection, a nil element, a zero-valued oneof payload or depth >= 2. Distinct by hash of the value's normal form.",
	},
	"C04": {
		quick:    budget{checks: 32, shards: 16, inner: 300},
		thorough: budget{checks: 300, shards: 16, inner: 2000},
		rule: "outer: (S, K) drawn by rapid and compiled;" + innerRule + " C04: NF(CopyFrom(CopyTo(x, empty))) == NF(x) with the documented normal form. " +
			"Non-trivial: >= 1 non-zero leaf below a list/map/oneof/nested message. Distinct by hash of the value's normal form.",
	},
	"C10": {
		quick:    budget{checks: 48, shards: 16, inner: 1},
		thorough: budget{checks: 600, shards: 16, inner: 1},
		rule: "each case is one (S with generated comments, K with arbitrary flag subsets, validator / plan-modifier lists, injected fields) compiled and its run-time schema walked against M(S,K). " +
			"Non-trivial: >= 2 different flags set below the root, or a multi-line comment. Distinct by hash of (S, K).",
	},
	"C19": {
		quick:    budget{checks: 16, shards: 16, inner: 500},
		thorough: budget{checks: 120, shards: 16, inner: 5000},
		rule: "outer: scalar-dense (S, K) drawn by rapid and compiled;" + innerRule + " C19: values drawn from the boundary set of every Go field type (plus random values) must survive CopyTo;CopyFrom exactly. " +
			"Non-trivial: a non-zero leaf in a non-singular shape (element, map value, oneof member, nested). Distinct by hash of the value's normal form.",
	},
	"C20": {
		quick:    budget{checks: 32, shards: 16, inner: 300},
		thorough: budget{checks: 300, shards: 16, inner: 2000},
		rule: "outer: (S, K) drawn by rapid and compiled;" + innerRule + " C20: values with every leaf zero with probability 1/2; after CopyTo into an empty object the null flag of every attribute outside list/map elements is compared with the field. " +
			"Non-trivial: the value has both zero and non-zero leaves at depth >= 1. Distinct by hash of the value's normal form.",
	},
}
