package props

import (
	"testing"
)

func TestC01(t *testing.T) { Check(t, "C01") }
func TestC02(t *testing.T) { Check(t, "C02") }
func TestC03(t *testing.T) { Check(t, "C03") }
func TestC04(t *testing.T) { Check(t, "C04") }
func TestC10(t *testing.T) { Check(t, "C10") }
func TestC19(t *testing.T) { Check(t, "C19") }
func TestC20(t *testing.T) { Check(t, "C20") }
func TestC05(t *testing.T) { Check(t, "C05") }
func TestC07(t *testing.T) { Check(t, "C07") }
func TestC08(t *testing.T) { Check(t, "C08") }
func TestC09(t *testing.T) { Check(t, "C09") }
func TestC12(t *testing.T) { Check(t, "C12") }
func TestC14(t *testing.T) { Check(t, "C14") }
func TestC15(t *testing.T) { Check(t, "C15") }
func TestC16(t *testing.T) { Check(t, "C16") }
func TestC18(t *testing.T) { Check(t, "C18") }
func TestC06(t *testing.T) { Check(t, "C06") }
func TestC11(t *testing.T) { Check(t, "C11") }
func TestC13(t *testing.T) { Check(t, "C13") }
func TestC17(t *testing.T) { Check(t, "C17") }
