package props

import (
	"encoding/json"
	"os"
	"path/filepath"
	"testing"

	"verif/pipeline"
)

func TestC01(t *testing.T) { Check(t, "C01") }
func TestC02(t *testing.T) { Check(t, "C02") }
func TestC03(t *testing.T) { Check(t, "C03") }
func TestC04(t *testing.T) { Check(t, "C04") }
func TestC10(t *testing.T) { Check(t, "C10") }
func TestC19(t *testing.T) { Check(t, "C19") }
func TestC20(t *testing.T) { Check(t, "C20") }
func TestC05(t *testing.T) { Check(t, "C05") }
func TestC07(t *testing.T) { Check(t, "C07") }
func TestC08(t *testing.T) { Check(t, "C08") }
func TestC09(t *testing.T) { Check(t, "C09") }
func TestC12(t *testing.T) { Check(t, "C12") }
func TestC14(t *testing.T) { Check(t, "C14") }
func TestC15(t *testing.T) { Check(t, "C15") }
func TestC16(t *testing.T) { Check(t, "C16") }
func TestC18(t *testing.T) { Check(t, "C18") }
func TestC06(t *testing.T) { Check(t, "C06") }
func TestC11(t *testing.T) { Check(t, "C11") }
func TestC13(t *testing.T) { Check(t, "C13") }
func TestC17(t *testing.T) { Check(t, "C17") }

// TestFuzzCampaign is the engine-F step of a thorough run of the properties in FuzzProps (started by the driver after
// the rapid shards; $VERIF_FUZZ_PROP names the property).
func TestFuzzCampaign(t *testing.T) {
	prop := os.Getenv("VERIF_FUZZ_PROP")
	if os.Getenv("VERIF_FUZZ") == "" || !FuzzProps[prop] {
		t.Skip()
	}
	r := getRecorder(t, prop)
	defer r.flush(t)
	defer pipeline.CleanupCases()
	if r.s.Infra != "" {
		t.Skipf("infrastructure: %s", r.s.Infra)
	}
	msg, rp, err := FuzzCampaign(r.tools, r, prop)
	if err != nil {
		// a campaign that cannot run is a note in the evidence, never a verdict
		r.Class("fuzz_campaign_inconclusive")
		t.Logf("fuzz campaign inconclusive: %v", err)
		return
	}
	if msg != "" {
		dir := replayDir()
		_ = os.MkdirAll(dir, 0o755)
		name := filepath.Join(dir, prop+"-fuzz.json")
		b, _ := json.MarshalIndent(rp, "", " ")
		_ = os.WriteFile(name, b, 0o644)
		r.mu.Lock()
		r.s.Violation, r.s.Replay = msg, name
		r.mu.Unlock()
		t.Fatalf("%s", msg)
	}
}
