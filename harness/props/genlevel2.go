package props

import (
	"bytes"
	"fmt"
	"os"
	"path/filepath"
	"sort"
	"strings"

	"pgregory.net/rapid"

	"verif/desc"
	"verif/gen"
	"verif/ir"
	"verif/model"
	"verif/pipeline"
)

// ---------------------------------------------------------------- C14

type c14Case struct {
	YAMLSeeds []uint64 `json:"yaml_seeds"`
	CLISeeds  []uint64 `json:"cli_seeds"`
	Runs      int      `json:"runs"`
	// EmptyEntries adds an empty entry to the set-like lists before they are shuffled
	EmptyEntries bool `json:"empty_entries"`
}

func mapSizes(c *ir.Config) []int {
	return []int{len(c.Types), len(c.ExcludeFields), len(c.RequiredFields), len(c.ComputedFields), len(c.SensitiveFields),
		len(c.NameOverrides), len(c.Validators), len(c.PlanModifiers), len(c.CustomTypes), len(c.Suffixes), len(c.InjectedFields)}
}

func init() {
	Defs["C14"] = &Def{
		Draw: func(t *rapid.T, r *Recorder) *Replay {
			v := genLevelVariant(t, r, func(o *gen.Opts, k *gen.KOpts) { k.Rich = true; o.Comments = true })
			// Entries under both key forms for one field, with different values: which one wins is
			// not documented (so no other check draws them), but the output must not depend on
			// map iteration order or on the order of the keys in the YAML file.
			n := 0
			for _, oc := range model.Occurrences(v.File, v.Cfg.Types) {
				if oc.Embed || oc.FullKey == "" || oc.FullKey == oc.TypeKey || rapid.IntRange(0, 3).Draw(t, "double") != 0 {
					continue
				}
				n++
				switch rapid.IntRange(0, 2).Draw(t, "doublekind") {
				case 0:
					if v.Cfg.Validators == nil {
						v.Cfg.Validators = map[string][]string{}
					}
					v.Cfg.Validators[oc.FullKey] = []string{fmt.Sprintf("%s.V(%d)", gen.SupportPath, 100+n)}
					v.Cfg.Validators[oc.TypeKey] = []string{fmt.Sprintf("%s.V(%d)", gen.SupportPath, 200+n)}
				case 1:
					if v.Cfg.PlanModifiers == nil {
						v.Cfg.PlanModifiers = map[string][]string{}
					}
					v.Cfg.PlanModifiers[oc.FullKey] = []string{fmt.Sprintf("%s.PM(%d)", gen.SupportPath, 100+n)}
					v.Cfg.PlanModifiers[oc.TypeKey] = []string{fmt.Sprintf("%s.PM(%d)", gen.SupportPath, 200+n)}
				default:
					if v.Cfg.NameOverrides == nil {
						v.Cfg.NameOverrides = map[string]string{}
					}
					v.Cfg.NameOverrides[oc.FullKey] = fmt.Sprintf("dbl%d_full", n)
					v.Cfg.NameOverrides[oc.TypeKey] = fmt.Sprintf("dbl%d_type", n)
				}
			}
			if !v.File.HasDep() && rapid.Bool().Draw(t, "c14dep") {
				gen.SplitDep(t, v.File, v.Cfg.Types)
			}
			if rapid.IntRange(0, 2).Draw(t, "c14spellings") == 0 {
				// name_overrides under both spellings of a lower_snake field (proto name and Go name) with different
				// values: the Go spelling addresses nothing; whatever is made of it must not depend on map order
				if v.Cfg.NameOverrides == nil {
					v.Cfg.NameOverrides = map[string]string{}
				}
				n := 0
				for _, oc := range model.Occurrences(v.File, v.Cfg.Types) {
					nm := oc.Field.Name
					if oc.Embed || n >= 3 || nm == "" || nm[0] < 'a' || nm[0] > 'z' || gen.GoName(nm) == nm {
						continue
					}
					if _, taken := v.Cfg.NameOverrides[oc.TypeKey]; taken {
						continue
					}
					n++
					v.Cfg.NameOverrides[oc.TypeKey] = fmt.Sprintf("spl%d_proto", n)
					v.Cfg.NameOverrides[oc.Message+"."+gen.GoName(nm)] = fmt.Sprintf("spl%d_go", n)
				}
			}
			if rapid.IntRange(0, 4).Draw(t, "c14failing") == 0 {
				// no time_type / duration_type: every selected type that reaches a Timestamp or Duration is skipped
				// with a warning; what is written about several skipped types must be reproducible too
				v.Cfg.TimeType, v.Cfg.DurationType = nil, nil
			}
			if rapid.Bool().Draw(t, "c14decoyovr") {
				// import_path_overrides keys that are parents of packages in use (validators, plan modifiers, the
				// framework itself) and disagree with each other: an exact-key lookup ignores them; whatever is made
				// of them must not depend on map order
				if v.Cfg.ImportPathOverrides == nil {
					v.Cfg.ImportPathOverrides = map[string]string{}
				}
				v.Cfg.ImportPathOverrides["github.com/hashicorp"] = "example.com/decoy1"
				v.Cfg.ImportPathOverrides["github.com/hashicorp/terraform-plugin-framework"] = "example.com/decoy2"
				v.Cfg.ImportPathOverrides["github.com"] = "example.com/decoy3"
				v.Cfg.ImportPathOverrides["verif"] = "example.com/decoy4"
			}
			rp := &Replay{Variants: []*pipeline.Variant{v}}
			c := c14Case{Runs: 6}
			for i := 0; i < 4; i++ {
				c.YAMLSeeds = append(c.YAMLSeeds, rapid.Uint64Range(1, 1<<40).Draw(t, "yamlseed"))
			}
			for i := 0; i < 6; i++ {
				c.CLISeeds = append(c.CLISeeds, rapid.Uint64Range(1, 1<<40).Draw(t, "cliseed"))
			}
			// an empty entry in set-like lists ("a++b", a blank YAML item) is a harmless member of the set
			c.EmptyEntries = rapid.Bool().Draw(t, "emptyentries")
			setExtra(rp, "c14", c)
			return rp
		},
		Run: func(tools *pipeline.Tools, r *Recorder, rp *Replay) (string, error) {
			v := rp.Variants[0]
			var c c14Case
			if !extraInto(rp, "c14", &c) {
				return "", pipeline.Infra("replay lacks c14 data")
			}
			dir, err := tools.NewCaseDir("c14-")
			if err != nil {
				return "", err
			}
			defer os.RemoveAll(dir)
			fd := desc.BuildFile(v.File)
			var ref []byte
			refName := ""
			check := func(name, yaml, param string) (string, error) {
				res, err := runReq(tools, dir, fd, yaml, param, nil, nil)
				if err != nil {
					return "", err
				}
				if msg := okResult(res); msg != "" {
					return name + ": " + msg, nil
				}
				if ref == nil {
					ref, refName = res.Stdout, name
					return "", nil
				}
				if !bytes.Equal(ref, res.Stdout) {
					return fmt.Sprintf("response of %q (sha %s) differs from %q (sha %s): %s", name, sha(res.Stdout), refName, sha(ref), firstDiff(string(ref), string(res.Stdout))), nil
				}
				return "", nil
			}
			if c.EmptyEntries {
				cc := ir.Clone(v.Cfg)
				for _, l := range []*[]string{&cc.ExcludeFields, &cc.RequiredFields, &cc.ComputedFields, &cc.SensitiveFields} {
					if len(*l) > 0 {
						*l = append(*l, "")
					}
				}
				vv := *v
				vv.Cfg = cc
				v = &vv
			}
			canon := v.Cfg.YAML(nil, nil)
			for i := 0; i < c.Runs; i++ {
				if msg, err := check(fmt.Sprintf("run %d of the same request", i), canon, ""); msg != "" || err != nil {
					return msg, err
				}
			}
			// a request that generates two files (the imported file of the package as well): the whole response,
			// including the order of its files, must not depend on the run
			if desc.DepFile(fd) != nil {
				if err := os.WriteFile(filepath.Join(dir, "cfg.yaml"), []byte(canon), 0o644); err != nil {
					return "", pipeline.Infra("write yaml: %v", err)
				}
				// ... with the non-empty messages of the imported file selected as well (they are generated into the
				// second file)
				both := ir.Clone(v.Cfg)
				for _, m := range v.File.Messages {
					if m.InDep && len(m.Fields) > 0 {
						both.Types = append(both.Types, m.Name)
					}
				}
				if err := os.WriteFile(filepath.Join(dir, "cfg.yaml"), []byte(both.YAML(nil, nil)), 0o644); err != nil {
					return "", pipeline.Infra("write yaml: %v", err)
				}
				req := desc.MarshalRequest(desc.RequestAll(fd, "config=cfg.yaml"))
				var first []byte
				for i := 0; i < c.Runs+6; i++ {
					res, err := tools.RunPlugin(req, dir)
					if err != nil {
						return "", err
					}
					if res.Exit != 0 || res.Resp == nil || res.Resp.Error != nil {
						return fmt.Sprintf("request with two files to generate: plugin failed (exit %d): %s", res.Exit, tail(res.Stderr)), nil
					}
					if i == 0 {
						first = res.Stdout
					} else if !bytes.Equal(first, res.Stdout) {
						return fmt.Sprintf("request with two files to generate: run %d gives another response (sha %s) than run 0 (sha %s): files %v vs %v", i, sha(res.Stdout), sha(first), respFiles(res), "see run 0"), nil
					}
				}
				r.Class("two_files_to_generate")
			}
			for i, s := range c.YAMLSeeds {
				if msg, err := check(fmt.Sprintf("YAML re-rendering %d (shuffled keys and set-like lists)", i), v.Cfg.YAML(shufflerFrom(s), nil), ""); msg != "" || err != nil {
					return msg, err
				}
			}
			// the two-channel options moved to the command line, '+' lists and parameter order shuffled
			skip := map[string]bool{}
			for _, k := range ir.CLIOptions {
				skip[k] = true
			}
			cliRef := ""
			for i, s := range c.CLISeeds {
				// decoys: the spellings the code does not read carry other values; whatever the plugin makes of
				// them must not depend on the run
				decoys := []string{"sensitive_fields=Decoy.One+Decoy.Two", "duration_custom_type=DecoyDuration", "computed=Decoy.Three"}
				var params []string
				for _, p := range strings.Split(v.Cfg.CLI(shufflerFrom(s), nil), ",") {
					if p == "" || strings.HasPrefix(p, "sensitive_fields=") || strings.HasPrefix(p, "duration_custom_type=") {
						continue
					}
					params = append(params, p)
				}
				res, err := runReq(tools, dir, fd, v.Cfg.YAML(nil, skip), strings.Join(append(params, decoys...), ","), nil, nil)
				if err != nil {
					return "", err
				}
				if msg := okResult(res); msg != "" {
					return "command-line rendering: " + msg, nil
				}
				if i == 0 {
					cliRef = string(res.Stdout)
				} else if cliRef != string(res.Stdout) {
					return "response depends on the order of `+` list entries / parameters on the command line: " + firstDiff(cliRef, string(res.Stdout)), nil
				}
			}
			big := 0
			for _, n := range mapSizes(v.Cfg) {
				if n >= 4 {
					big++
				}
			}
			r.Class(fmt.Sprintf("maps_with>=4_entries:%d", big))
			if big >= 2 {
				r.Nontrivial(Hash(v))
			}
			r.Sample(map[string]interface{}{"map_sizes": mapSizes(v.Cfg), "messages": len(v.File.Messages), "response_sha": sha(ref)})
			return "", nil
		},
	}
}

// ---------------------------------------------------------------- C16

type c16Case struct {
	OnCLI    []string   `json:"on_cli"`   // options delivered by parameter; the rest by YAML
	Conflict *ir.Config `json:"conflict"` // YAML-side values that differ from the real (command-line) ones
}

func setOptions(c *ir.Config) []string {
	var out []string
	add := func(k string, on bool) {
		if on {
			out = append(out, k)
		}
	}
	add("types", len(c.Types) > 0)
	add("exclude_fields", len(c.ExcludeFields) > 0)
	add("computed_fields", len(c.ComputedFields) > 0)
	add("required_fields", len(c.RequiredFields) > 0)
	add("sensitive_fields", len(c.SensitiveFields) > 0)
	add("default_package_name", c.DefaultPackageName != "")
	add("target_package_name", c.TargetPackageName != "")
	add("duration_custom_type", c.DurationCustomType != "")
	add("sort", c.Sort)
	return out
}

func toSet(l []string) map[string]bool {
	m := map[string]bool{}
	for _, x := range l {
		m[x] = true
	}
	return m
}

func init() {
	Defs["C16"] = &Def{
		Draw: func(t *rapid.T, r *Recorder) *Replay {
			// one case in three has nothing but the nine two-channel options, so that the YAML file of the
			// all-parameters split is empty (only comments)
			pure := rapid.IntRange(0, 2).Draw(t, "pure") == 0
			v := genLevelVariant(t, r, func(o *gen.Opts, k *gen.KOpts) {
				k.OnlyCLI = true
				k.Rich = true
				if pure {
					o.NoTemporal, k.NoTimeType = true, true
				}
			})
			if pure {
				v.Cfg.UseStateForUnknown = false
			}
			rp := &Replay{Variants: []*pipeline.Variant{v}}
			var c c16Case
			for _, k := range setOptions(v.Cfg) {
				if rapid.Bool().Draw(t, "cli:"+k) {
					c.OnCLI = append(c.OnCLI, k)
				}
			}
			// conflicting YAML values for precedence
			cf := ir.Clone(v.Cfg)
			occ := model.Occurrences(v.File, v.Cfg.Types)
			pick := func() []string {
				var out []string
				for _, o := range occ {
					if !o.Embed && rapid.IntRange(0, 3).Draw(t, "cf") == 0 {
						out = append(out, o.TypeKey)
					}
				}
				if len(out) == 0 {
					out = []string{"Nope.Nothing"}
				}
				return out
			}
			cf.ComputedFields, cf.RequiredFields, cf.SensitiveFields = pick(), pick(), pick()
			cf.ExcludeFields = []string{"Nope.Nothing"}
			cf.Sort = true
			cf.TargetPackageName = "conflictpkg"
			cf.DurationCustomType = "MyInt64"
			c.Conflict = cf
			setExtra(rp, "c16", c)
			return rp
		},
		Run: func(tools *pipeline.Tools, r *Recorder, rp *Replay) (string, error) {
			v := rp.Variants[0]
			var c c16Case
			if !extraInto(rp, "c16", &c) {
				return "", pipeline.Infra("replay lacks c16 data")
			}
			dir, err := tools.NewCaseDir("c16-")
			if err != nil {
				return "", err
			}
			defer os.RemoveAll(dir)
			fd := desc.BuildFile(v.File)
			content := func(name, yaml, param string) (string, string, error) {
				res, err := runReq(tools, dir, fd, yaml, param, nil, nil)
				if err != nil {
					return "", "", err
				}
				if msg := okResult(res); msg != "" {
					return "", name + ": " + msg, nil
				}
				return res.Content(), "", nil
			}
			allYAML, msg, err := content("all options in YAML", v.Cfg.YAML(nil, nil), "")
			if err != nil || msg != "" {
				return msg, err
			}
			// the YAML channel must not depend on how the file is reached: a path with a '+' in it (the list separator
			// applies to list parameters only) and a symbolic link to the file
			{
				sub := filepath.Join(dir, "c++", "tf")
				if err := os.MkdirAll(sub, 0o755); err != nil {
					return "", pipeline.Infra("mkdir: %v", err)
				}
				if err := os.WriteFile(filepath.Join(sub, "gen.yaml"), []byte(v.Cfg.YAML(nil, nil)), 0o644); err != nil {
					return "", pipeline.Infra("write yaml: %v", err)
				}
				_ = os.Remove(filepath.Join(dir, "link.yaml"))
				if err := os.Symlink(filepath.Join("c++", "tf", "gen.yaml"), filepath.Join(dir, "link.yaml")); err != nil {
					return "", pipeline.Infra("symlink: %v", err)
				}
				for _, cp := range []string{"c++/tf/gen.yaml", "link.yaml"} {
					res, err := tools.RunPlugin(desc.MarshalRequest(desc.Request(fd, "config="+cp, nil, nil)), dir)
					if err != nil {
						return "", err
					}
					if msg := okResult(res); msg != "" {
						return fmt.Sprintf("all options in YAML, configuration file reached as %q: %s", cp, msg), nil
					}
					if res.Content() != allYAML {
						return fmt.Sprintf("the same configuration file reached as %q changes the output: %s", cp, firstDiff(allYAML, res.Content())), nil
					}
				}
			}
			opts := setOptions(v.Cfg)
			// the drawn split, the all-CLI split and every single-option split
			splits := [][]string{c.OnCLI, opts}
			for _, k := range opts {
				splits = append(splits, []string{k})
			}
			for _, onCLI := range splits {
				cli := toSet(onCLI)
				got, msg, err := content(fmt.Sprintf("options %v as parameters, the rest in YAML", onCLI), v.Cfg.YAML(nil, cli), v.Cfg.CLI(nil, cli))
				if err != nil || msg != "" {
					return msg, err
				}
				if got != allYAML {
					return fmt.Sprintf("delivering %v as plugin parameters instead of YAML changes the output: %s", onCLI, firstDiff(allYAML, got)), nil
				}
			}
			// all options as parameters and a configuration file that holds no document at all
			if rest := v.Cfg.YAML(nil, toSet(opts)); strings.TrimSpace(strings.TrimPrefix(rest, "---")) == "" {
				for _, empty := range []string{"# every option is given on the command line\n# sort: true\n", "\n", "---\n"} {
					got, msg, err := content(fmt.Sprintf("all options as parameters, configuration file %q", empty), empty, v.Cfg.CLI(nil, toSet(opts)))
					if err != nil || msg != "" {
						return msg, err
					}
					if got != allYAML {
						return "all options as parameters with an empty configuration file changes the output: " + firstDiff(allYAML, got), nil
					}
				}
				r.Class("empty_yaml_file")
			}
			// precedence: YAML carries different values for every option that is set, the command line carries the real ones
			all := toSet(opts)
			cf := c.Conflict
			y := ir.Clone(v.Cfg)
			for _, k := range opts {
				switch k {
				case "types":
					y.Types = []string{"NopeType"}
				case "default_package_name":
					y.DefaultPackageName = "bogus.example/pkg"
				case "exclude_fields":
					y.ExcludeFields = cf.ExcludeFields
				case "computed_fields":
					y.ComputedFields = cf.ComputedFields
				case "required_fields":
					y.RequiredFields = cf.RequiredFields
				case "sensitive_fields":
					y.SensitiveFields = cf.SensitiveFields
				case "target_package_name":
					y.TargetPackageName = cf.TargetPackageName
				case "duration_custom_type":
					y.DurationCustomType = cf.DurationCustomType
				}
			}
			got, msg, err := content("conflicting YAML values under command-line values", y.YAML(nil, nil), v.Cfg.CLI(nil, all))
			if err != nil || msg != "" {
				return msg, err
			}
			if got != allYAML {
				return "a command-line value does not take precedence over the YAML value: " + firstDiff(allYAML, got), nil
			}
			if !v.Cfg.Sort {
				y2 := ir.Clone(v.Cfg)
				y2.Sort = true
				got, msg, err := content("sort=false on the command line over sort: true in YAML", y2.YAML(nil, nil), "sort=false")
				if err != nil || msg != "" {
					return msg, err
				}
				if got != allYAML {
					return "sort=false on the command line does not override sort: true in YAML: " + firstDiff(allYAML, got), nil
				}
			}
			// failures
			noTypes := ir.Clone(v.Cfg)
			noTypes.Types = nil
			fails := []struct{ name, yaml, param string }{
				{"no types on either channel", noTypes.YAML(nil, nil), ""},
				{"types: [] in YAML and no types parameter", "types: []\n" + strings.TrimPrefix(noTypes.YAML(nil, nil), "---\n"), ""},
				{"types: (null) in YAML and an empty types parameter", "types:\n" + strings.TrimPrefix(noTypes.YAML(nil, nil), "---\n"), "types="},
				{"unreadable config path", "", "config=does/not/exist.yaml,types=" + strings.Join(v.Cfg.Types, "+")},
				{"unparsable YAML", "types: [unterminated\n  - : :\n", ""},
			}
			// well-formed YAML whose values have the wrong shape for the option ("cannot be parsed" into the configuration)
			typed := ir.Clone(v.Cfg)
			typed.ExcludeFields, typed.ComputedFields, typed.RequiredFields, typed.SensitiveFields = nil, nil, nil, nil
			ty := typed.YAML(nil, nil)
			for _, bad := range []struct{ name, tail string }{
				{"a mapping as element of exclude_fields", "exclude_fields:\n  - Zz.Field: true\n"},
				{"a mapping inside the flow list of computed_fields", "computed_fields: [Zz.A, {Zz.B: yes}]\n"},
				{"a nested sequence as element of required_fields", "required_fields:\n  - - Zz.A\n"},
				{"a scalar where sensitive_fields wants a list", "sensitive_fields: Zz.A\n"},
			} {
				if !strings.Contains(ty, strings.SplitN(bad.tail, ":", 2)[0]+":") {
					fails = append(fails, struct{ name, yaml, param string }{"ill-typed YAML: " + bad.name, ty + bad.tail, ""})
				}
			}
			for _, f := range fails {
				var res *pipeline.PluginResult
				if f.yaml != "" {
					res, err = runReq(tools, dir, fd, f.yaml, f.param, nil, nil)
				} else {
					res, err = tools.RunPlugin(desc.MarshalRequest(desc.Request(fd, f.param, nil, nil)), dir)
				}
				if err != nil {
					return "", err
				}
				if !res.Failed() {
					return fmt.Sprintf("%s: the plugin did not fail (exit 0, no error in the response)", f.name), nil
				}
				if res.Resp != nil && len(res.Resp.File) > 0 {
					return fmt.Sprintf("%s: the plugin failed but still returned a generated file", f.name), nil
				}
			}
			r.Class(fmt.Sprintf("options_set:%d", len(opts)))
			if len(opts) >= 3 && len(c.OnCLI) >= 1 && len(c.OnCLI) < len(opts) {
				r.Class("mixed_split")
				r.Nontrivial(Hash([]interface{}{v, c.OnCLI}))
			}
			r.Sample(map[string]interface{}{"options": opts, "on_cli": c.OnCLI, "cli": v.Cfg.CLI(nil, toSet(c.OnCLI))})
			return "", nil
		},
	}
}

func respFiles(res *pipeline.PluginResult) []string {
	var out []string
	if res.Resp != nil {
		for _, f := range res.Resp.File {
			out = append(out, f.GetName())
		}
	}
	return out
}

// ---------------------------------------------------------------- C15 (sort on)

// permute returns a copy of f with messages and fields re-ordered the way a .proto author could:
// members of a oneof stay contiguous; numbers, names and memberships are kept. With interleave the members of a
// oneof need not stay together (a descriptor protoc does not write, but one the property's "all permutations of
// field order, oneof membership kept" covers and other descriptor producers can emit).
func permute(f *ir.File, seed uint64, interleave bool) *ir.File {
	sh := shufflerFrom(seed)
	out := ir.Clone(f)
	msgs := make([]*ir.Message, len(out.Messages))
	for i, j := range sh(len(out.Messages)) {
		msgs[i] = out.Messages[j]
	}
	out.Messages = msgs
	for _, m := range out.Messages {
		type block []*ir.Field
		var blocks []block
		byOneof := map[string]int{}
		for _, fl := range m.Fields {
			if fl.Oneof == "" || interleave {
				blocks = append(blocks, block{fl})
				continue
			}
			if i, ok := byOneof[fl.Oneof]; ok {
				blocks[i] = append(blocks[i], fl)
			} else {
				byOneof[fl.Oneof] = len(blocks)
				blocks = append(blocks, block{fl})
			}
		}
		var fields []*ir.Field
		for _, bi := range sh(len(blocks)) {
			b := blocks[bi]
			for _, k := range sh(len(b)) {
				fields = append(fields, b[k])
			}
		}
		m.Fields = fields
	}
	if len(out.Enums) > 1 {
		es := make([]*ir.Enum, len(out.Enums))
		for i, j := range sh(len(out.Enums)) {
			es[i] = out.Enums[j]
		}
		out.Enums = es
	}
	return out
}

func orderMoved(a, b *ir.File) (commentMoved, oneofMoved, msgMoved bool) {
	for i, m := range a.Messages {
		if b.Messages[i].Name != m.Name {
			msgMoved = true
		}
		bm := b.Msg(m.Name)
		if strings.Join(m.OneofNames(), ",") != strings.Join(bm.OneofNames(), ",") {
			oneofMoved = true
		}
		for j, fl := range m.Fields {
			if bm.Fields[j].Name != fl.Name && fl.Comment.Leading != "" {
				commentMoved = true
			}
		}
	}
	return
}

func init() {
	Defs["C15"] = &Def{
		Draw: func(t *rapid.T, r *Recorder) *Replay {
			sortOn := rapid.IntRange(0, 2).Draw(t, "sort_on") != 0
			v := genLevelVariant(t, r, func(o *gen.Opts, k *gen.KOpts) { k.Sort = &sortOn; o.Comments = true; o.OneofHeavy = true })
			rp := &Replay{Variants: []*pipeline.Variant{v}}
			setExtra(rp, "perm_seed", rapid.Uint64Range(1, 1<<40).Draw(t, "perm_seed"))
			if rapid.IntRange(0, 3).Draw(t, "interleave") == 0 {
				setExtra(rp, "interleave", uint64(1))
			}
			if !sortOn {
				drawInner(t, rp, 150)
			}
			return rp
		},
		Run: func(tools *pipeline.Tools, r *Recorder, rp *Replay) (string, error) {
			v := rp.Variants[0]
			inter := extraUint(rp, "interleave", 0) == 1
			pf := permute(v.File, extraUint(rp, "perm_seed", 1), inter)
			cm, om, mm := orderMoved(v.File, pf)
			if inter && interleaved(pf) {
				r.Class("oneof_members_interleaved")
			}
			if v.Cfg.Sort {
				dir, err := tools.NewCaseDir("c15-")
				if err != nil {
					return "", err
				}
				defer os.RemoveAll(dir)
				yaml := v.Cfg.YAML(nil, nil)
				a, err := runReq(tools, dir, desc.BuildFile(v.File), yaml, "", nil, nil)
				if err != nil {
					return "", err
				}
				b, err := runReq(tools, dir, desc.BuildFile(pf), yaml, "", nil, nil)
				if err != nil {
					return "", err
				}
				if msg := okResult(a); msg != "" {
					return msg, nil
				}
				if msg := okResult(b); msg != "" {
					return "permuted declaration order: " + msg, nil
				}
				if a.Content() != b.Content() {
					return "sort is on but permuting the declaration order of fields/messages changes the generated file: " + firstDiff(a.Content(), b.Content()), nil
				}
				r.Class("sort:on")
			} else {
				msg, err := c15Unsorted(tools, r, rp, pf)
				if err != nil || msg != "" {
					return msg, err
				}
				r.Class("sort:off")
			}
			for k, on := range map[string]bool{"commented_field_moved": cm, "oneof_block_moved": om, "message_moved": mm} {
				if on {
					r.Class(k)
				}
			}
			if cm || om || mm {
				r.Nontrivial(Hash([]interface{}{v, extraUint(rp, "perm_seed", 1)}))
			}
			r.Sample(map[string]interface{}{"sort": v.Cfg.Sort, "messages": msgOrder(v.File), "permuted": msgOrder(pf)})
			return "", nil
		},
	}
}

// interleaved reports whether some oneof of f has members that are not contiguous.
func interleaved(f *ir.File) bool {
	for _, m := range f.Messages {
		last := map[string]int{}
		for i, fl := range m.Fields {
			if fl.Oneof == "" {
				continue
			}
			if j, ok := last[fl.Oneof]; ok && j != i-1 {
				return true
			}
			last[fl.Oneof] = i
		}
	}
	return false
}

func msgOrder(f *ir.File) []string {
	var out []string
	for _, m := range f.Messages {
		var fs []string
		for _, fl := range m.Fields {
			fs = append(fs, fl.Name)
		}
		out = append(out, m.Name+"("+strings.Join(fs, ",")+")")
	}
	return out
}

// ---------------------------------------------------------------- C18

type c18Case struct {
	Target           string `json:"target"`                // selected type below which the bad field is injected
	Host             string `json:"host"`                  // message that receives the bad field
	Kind             string `json:"kind"`                  // no_time_type | no_duration_type | no_duration_type_cast | map_key | group
	Cast             string `json:"cast,omitempty"`        // no_duration_type_cast: time.Duration or the configured duration_custom_type
	InjectSame       bool   `json:"inject_same,omitempty"` // injected_fields holds an attribute with the unmappable field's schema name at the host's path
	FlagAlso         string `json:"flag_also,omitempty"`   // the exclusion key is also listed in this flag list (flags of an excluded field mean nothing)
	MapKey           string `json:"map_key"`               // for map_key
	Card             string `json:"card"`                  // cardinality of the bad field (time/duration)
	Oneof            string `json:"oneof"`                 // put the bad field into this oneof of the host ("" = none)
	KeyForm          string `json:"key_form"`              // full | type : form of the exclude_fields entry
	Depth            int    `json:"depth"`
	BehindCollection bool   `json:"behind_collection"`
}

// hostsBelow lists the messages reachable from root (root included) with their depth and whether a list/map/oneof edge is on the way.
func hostsBelow(f *ir.File, root string) map[string][2]int {
	out := map[string][2]int{}
	var walk func(n string, depth, coll int)
	walk = func(n string, depth, coll int) {
		if cur, ok := out[n]; ok && cur[0] <= depth {
			return
		}
		out[n] = [2]int{depth, coll}
		m := f.Msg(n)
		if m == nil {
			return
		}
		for _, fl := range m.Fields {
			if fl.Kind == ir.KMessage && fl.CustomType == "" {
				c := coll
				if fl.Card != ir.Single || fl.Oneof != "" {
					c = 1
				}
				walk(fl.Type, depth+1, c)
			}
		}
	}
	walk(root, 0, 0)
	return out
}

func init() {
	Defs["C18"] = &Def{
		Draw: func(t *rapid.T, r *Recorder) *Replay {
			kind := rapid.SampledFrom([]string{"no_time_type", "no_duration_type", "no_duration_type_cast", "map_key", "group"}).Draw(t, "badkind")
			v := genLevelVariant(t, r, func(o *gen.Opts, k *gen.KOpts) {
				k.NoCustom = true
				if kind == "no_time_type" || kind == "no_duration_type" || kind == "no_duration_type_cast" {
					o.NoTemporal = true
					k.NoTimeType = true
				}
			})
			rp := &Replay{Variants: []*pipeline.Variant{v}}
			c := c18Case{Kind: kind}
			c.Target = rapid.SampledFrom(v.Cfg.Types).Draw(t, "target")
			if rapid.IntRange(0, 3).Draw(t, "deeptarget") != 0 {
				// three cases in four: the selected type with the deepest reference graph
				best := -1
				for _, tn := range v.Cfg.Types {
					d := 0
					for _, h := range hostsBelow(v.File, tn) {
						if h[0] > d {
							d = h[0]
						}
					}
					if d > best {
						best, c.Target = d, tn
					}
				}
			}
			hosts := hostsBelow(v.File, c.Target)
			names := make([]string, 0, len(hosts))
			for n := range hosts {
				if len(v.File.Msg(n).Fields) > 0 { // an empty message would stop being empty
					names = append(names, n)
				}
			}
			sort.Strings(names)
			// prefer deep hosts
			c.Host = rapid.SampledFrom(names).Draw(t, "host")
			if rapid.IntRange(0, 3).Draw(t, "deepest") != 0 {
				// three cases in four: the deepest host (ties broken by name)
				for _, n := range names {
					if hosts[n][0] > hosts[c.Host][0] {
						c.Host = n
					}
				}
			}
			c.Depth, c.BehindCollection = hosts[c.Host][0], hosts[c.Host][1] == 1
			c.MapKey = rapid.SampledFrom([]string{"int32", "int64", "uint32", "uint64", "sint32", "fixed64", "bool"}).Draw(t, "mapkey")
			c.Card = rapid.SampledFrom([]string{ir.Single, ir.Repeated, ir.Map}).Draw(t, "badcard")
			if on := v.File.Msg(c.Host).OneofNames(); len(on) > 0 && rapid.Bool().Draw(t, "inoneof") && (kind == "no_time_type" || kind == "no_duration_type" || kind == "no_duration_type_cast" || kind == "group") {
				c.Oneof = on[0]
				c.Card = ir.Single
			}
			if kind == "no_duration_type_cast" {
				// a duration that is only known through its cast type: an int64 cast to time.Duration or to the
				// configured duration_custom_type, while no duration_type is configured
				c.Cast = rapid.SampledFrom([]string{"time.Duration", "Duration"}).Draw(t, "badcast")
				if c.Cast == "Duration" {
					v.Cfg.DurationCustomType = "Duration"
				}
				if c.Card == ir.Map {
					c.Card = ir.Repeated // casttype on map values is outside D
				}
			}
			c.KeyForm = rapid.SampledFrom([]string{"type", "full", "embed"}).Draw(t, "keyform")
			c.InjectSame = rapid.IntRange(0, 3).Draw(t, "injectsame") == 0
			c.FlagAlso = rapid.SampledFrom([]string{"", "", "", "required_fields", "computed_fields", "sensitive_fields"}).Draw(t, "flagalso")
			setExtra(rp, "c18", c)
			return rp
		},
		Run: func(tools *pipeline.Tools, r *Recorder, rp *Replay) (string, error) {
			v := rp.Variants[0]
			var c c18Case
			if !extraInto(rp, "c18", &c) {
				return "", pipeline.Infra("replay lacks c18 data")
			}
			dir, err := tools.NewCaseDir("c18-")
			if err != nil {
				return "", err
			}
			defer os.RemoveAll(dir)
			if c.InjectSame {
				// The pattern "exclude the time field and inject a hand-handled string attribute of the same name": an
				// injected attribute called like the unmappable field, at one position of the host message (in every
				// run of this case, so that the comparisons below stay like for like).
				hostPath := ""
				if ir.Has(v.Cfg.Types, c.Host) {
					hostPath = c.Host
				} else {
					for _, oc := range model.Occurrences(v.File, v.Cfg.Types) {
						if oc.Field.Kind == ir.KMessage && oc.Field.Type == c.Host && !oc.Embed && oc.FullKey != "" && oc.Field.CustomType == "" {
							hostPath = oc.FullKey
							break
						}
					}
				}
				if hostPath != "" {
					vv := *v
					vv.Cfg = ir.Clone(v.Cfg)
					if vv.Cfg.InjectedFields == nil {
						vv.Cfg.InjectedFields = map[string][]ir.InjectedField{}
					}
					vv.Cfg.InjectedFields[hostPath] = append(vv.Cfg.InjectedFields[hostPath], ir.InjectedField{Name: "zz_bad",
						Type: "github.com/hashicorp/terraform-plugin-framework/types.StringType", Optional: true})
					v = &vv
				}
			}
			// the file with the unmappable field
			bad := ir.Clone(v.File)
			host := bad.Msg(c.Host)
			fl := &ir.Field{Name: "ZzBad", Number: 536870000, Comment: ir.Comments{Leading: " unmappable\n"}}
			switch c.Kind {
			case "no_time_type":
				fl.Kind, fl.Card = ir.KTimestamp, c.Card
			case "no_duration_type":
				fl.Kind, fl.Card = ir.KDuration, c.Card
			case "no_duration_type_cast":
				fl.Kind, fl.Card, fl.CastType = "int64", c.Card, c.Cast
			case "map_key":
				fl.Kind, fl.Card, fl.MapKey = "string", ir.Map, c.MapKey
			case "group":
				fl.Kind, fl.Type = ir.KGroup, c.Host
			}
			if c.Oneof != "" {
				fl.Oneof = c.Oneof
				// keep the oneof block contiguous: insert after its last member
				idx := 0
				for i, x := range host.Fields {
					if x.Oneof == c.Oneof {
						idx = i + 1
					}
				}
				host.Fields = append(host.Fields[:idx], append([]*ir.Field{fl}, host.Fields[idx:]...)...)
			} else {
				host.Fields = append(host.Fields, fl)
			}
			// which selected types reach the bad field through non-excluded fields? (reference model, not the plugin)
			affected := map[string]bool{}
			bm, merr := model.Build(bad, v.Cfg)
			if merr != nil {
				return "", pipeline.Infra("model of the extended file: %v", merr)
			}
			for _, root := range bm.Roots {
				root.Walk(func(m *model.Msg) {
					for _, a := range m.Attrs {
						if a.TypeKey == c.Host+".ZzBad" {
							affected[root.Name] = true
						}
					}
				})
			}
			if len(affected) == 0 {
				r.Class("skipped:bad_field_only_behind_exclusions")
				return "", nil
			}
			yaml := v.Cfg.YAML(nil, nil)
			base, err := runReq(tools, dir, desc.BuildFile(v.File), yaml, "", nil, nil)
			if err != nil {
				return "", err
			}
			if msg := okResult(base); msg != "" {
				return "base file: " + msg, nil
			}
			baseF, perr := funcTexts("base", base.Content())
			if perr != nil {
				return "base file does not parse: " + perr.Error(), nil
			}
			res, err := runReq(tools, dir, desc.BuildFile(bad), yaml, "", nil, nil)
			if err != nil {
				return "", err
			}
			if res.Exit != 0 {
				return fmt.Sprintf("an unmappable field (%s in %s) makes the plugin exit with status %d instead of skipping type(s) %v: %s", c.Kind, c.Host, res.Exit, keys(affected), tail(res.Stderr)), nil
			}
			if res.Resp == nil || res.Resp.Error != nil || len(res.Resp.File) != 1 {
				return "an unmappable field makes the plugin return no file", nil
			}
			gotF, perr := funcTexts("bad", res.Content())
			if perr != nil {
				return "file generated with an unmappable field does not parse: " + perr.Error(), nil
			}
			for _, tn := range v.Cfg.Types {
				for _, fn := range threeFuncs(tn) {
					_, has := gotF[fn]
					if affected[tn] {
						if has {
							return fmt.Sprintf("type %s reaches the unmappable field %s.ZzBad (%s) but %s was generated: a converter that silently skips the field", tn, c.Host, c.Kind, fn), nil
						}
					} else {
						if !has {
							return fmt.Sprintf("type %s does not reach the unmappable field but %s is missing", tn, fn), nil
						}
						if gotF[fn] != baseF[fn] {
							return fmt.Sprintf("function %s of an unaffected type changed: %s", fn, firstDiff(baseF[fn], gotF[fn])), nil
						}
					}
				}
			}
			for fn := range gotF {
				if _, ok := baseF[fn]; !ok {
					return "unexpected function " + fn, nil
				}
			}
			for tn := range affected {
				if !warnsAbout(res.Stderr, tn) {
					return fmt.Sprintf("type %s was skipped but no warning or error naming it was logged; stderr: %s", tn, tail(res.Stderr)), nil
				}
			}
			// excluding the offending field restores full generation
			ex := ir.Clone(v.Cfg)
			key := c.Host + ".ZzBad"
			if c.KeyForm == "full" {
				// full paths exist per occurrence; use the Message.Field form unless the host is a selected root itself
				if ir.Has(v.Cfg.Types, c.Host) {
					key = c.Host + ".ZzBad"
				}
			}
			exKeys := []string{key}
			if c.KeyForm == "embed" {
				// every occurrence addressed in its most specific documented form: through the embedding message where
				// the host is flattened into one (<EmbeddingMessage>.<Field>), by full path elsewhere
				var ks []string
				okAll := true
				for _, oc := range model.Occurrences(bad, v.Cfg.Types) {
					if oc.TypeKey != c.Host+".ZzBad" {
						continue
					}
					switch {
					case oc.EmbedKey != "":
						ks = append(ks, oc.EmbedKey)
					case oc.FullKey != "":
						ks = append(ks, oc.FullKey)
					default:
						okAll = false
					}
				}
				if okAll && len(ks) > 0 {
					exKeys = ks
				}
			}
			for _, k := range exKeys {
				if !ir.Has(ex.ExcludeFields, k) {
					ex.ExcludeFields = append(ex.ExcludeFields, k)
				}
			}
			switch c.FlagAlso {
			case "required_fields":
				ex.RequiredFields = append(ex.RequiredFields, key)
			case "computed_fields":
				ex.ComputedFields = append(ex.ComputedFields, key)
			case "sensitive_fields":
				ex.SensitiveFields = append(ex.SensitiveFields, key)
			}
			res2, err := runReq(tools, dir, desc.BuildFile(bad), ex.YAML(nil, nil), "", nil, nil)
			if err != nil {
				return "", err
			}
			if msg := okResult(res2); msg != "" {
				return "with the unmappable field excluded: " + msg, nil
			}
			exF, perr := funcTexts("ex", res2.Content())
			if perr != nil {
				return "file generated with the field excluded does not parse: " + perr.Error(), nil
			}
			for _, tn := range v.Cfg.Types {
				for _, fn := range threeFuncs(tn) {
					if exF[fn] != baseF[fn] {
						return fmt.Sprintf("excluding the unmappable field does not restore %s as generated without the field: %s", fn, firstDiff(baseF[fn], exF[fn])), nil
					}
				}
			}
			// excluding the field by full path below ONE of several affected types restores that type only
			if len(affected) >= 2 {
				byRoot := map[string][]string{}
				complete := map[string]bool{}
				for tn := range affected {
					complete[tn] = true
				}
				for _, oc := range model.Occurrences(bad, v.Cfg.Types) {
					if oc.TypeKey != c.Host+".ZzBad" {
						continue
					}
					// which root does the occurrence belong to? full keys start with the root's name
					if oc.FullKey == "" {
						for tn := range affected { // an occurrence without a full key (below an embedded message) cannot be excluded per root
							complete[tn] = false
						}
						continue
					}
					root := strings.SplitN(oc.FullKey, ".", 2)[0]
					byRoot[root] = append(byRoot[root], oc.FullKey)
				}
				for _, tn := range keys(affected) {
					if !complete[tn] || len(byRoot[tn]) == 0 {
						continue
					}
					ex := ir.Clone(v.Cfg)
					ex.ExcludeFields = append(ex.ExcludeFields, byRoot[tn]...)
					em, merr := model.Build(bad, ex)
					if merr != nil {
						break
					}
					still := map[string]bool{}
					for _, root := range em.Roots {
						root.Walk(func(m *model.Msg) {
							for _, a := range m.Attrs {
								if a.TypeKey == c.Host+".ZzBad" {
									still[root.Name] = true
								}
							}
						})
					}
					if still[tn] {
						continue
					}
					res3, err := runReq(tools, dir, desc.BuildFile(bad), ex.YAML(nil, nil), "", nil, nil)
					if err != nil {
						return "", err
					}
					if msg := okResult(res3); msg != "" {
						return "with the unmappable field excluded below " + tn + " only: " + msg, nil
					}
					pf, perr := funcTexts("partial", res3.Content())
					if perr != nil {
						return "file generated with a per-type exclusion does not parse: " + perr.Error(), nil
					}
					for _, other := range v.Cfg.Types {
						for _, fn := range threeFuncs(other) {
							_, has := pf[fn]
							switch {
							case still[other] && has:
								return fmt.Sprintf("type %s still reaches the unmappable field (it is excluded below %s only) but %s was generated", other, tn, fn), nil
							case !still[other] && !has:
								return fmt.Sprintf("the unmappable field is excluded below %s by full path (%v), type %s does not reach it, but %s is missing; stderr: %s", tn, byRoot[tn], other, fn, tail(res3.Stderr)), nil
							case !still[other] && pf[fn] != baseF[fn]:
								return fmt.Sprintf("per-type exclusion of the unmappable field changes %s: %s", fn, firstDiff(baseF[fn], pf[fn])), nil
							}
						}
					}
					r.Class("per_type_exclusion")
					break
				}
			}
			r.Class("kind:" + c.Kind)
			r.Class(fmt.Sprintf("depth:%d", c.Depth))
			if c.Oneof != "" {
				r.Class("in_oneof")
			}
			if c.Depth >= 2 || c.BehindCollection {
				r.Class("deep_or_behind_collection")
				r.Nontrivial(Hash([]interface{}{v, c}))
			}
			r.Sample(map[string]interface{}{"case": c, "types": v.Cfg.Types, "affected": keys(affected), "stderr_tail": tail(lastLine(res.Stderr))})
			_ = filepath.Join
			return "", nil
		},
	}
}

// warnsAbout: some warning/error line of the log names the type as a word.
func warnsAbout(stderr []byte, typ string) bool {
	for _, l := range strings.Split(string(stderr), "\n") {
		low := strings.ToLower(l)
		problem := false
		for _, w := range []string{"warn", "error", "fail", "skip", "cannot", "can not", "unable", "unsupported", "invalid", "ignor", "omit"} {
			if strings.Contains(low, w) {
				problem = true
			}
		}
		if !problem {
			continue // e.g. the start-up dump of the configuration ("Types: [...]") does not count
		}
		for _, w := range strings.FieldsFunc(l, func(r rune) bool {
			return !(r == '_' || r >= '0' && r <= '9' || r >= 'a' && r <= 'z' || r >= 'A' && r <= 'Z')
		}) {
			if w == typ {
				return true
			}
		}
	}
	return false
}

func lastLine(b []byte) []byte {
	s := strings.TrimRight(string(b), "\n")
	if i := strings.LastIndex(s, "\n"); i >= 0 {
		s = s[i+1:]
	}
	return []byte(s)
}

func keys(m map[string]bool) []string {
	var out []string
	for k := range m {
		out = append(out, k)
	}
	sort.Strings(out)
	return out
}
