package props

import (
	"encoding/base64"
	"encoding/json"
	"fmt"
	"os"
	"path/filepath"
	"strings"
	"time"

	"verif/model"
	"verif/pipeline"
	"verif/rt"
)

// Engine F (DESIGN.md §2.3): a time-boxed native fuzz campaign (go test -fuzz, all cores) on one rich
// schema — the repository's own test.proto — with the inner property of the checked property (C06 first of all) as oracle. The byte input is
// rapid's bit stream (rapid.MakeFuzz), so generators and oracle are those of the rapid search. The campaign
// cannot be pinned to VERIF_SEED; its expiry is never a verdict; a crasher is only reported after it has been
// re-run deterministically from the saved input, and that input travels in the replay file.

// FuzzProps: the properties whose thorough tier ends with a native fuzz campaign. All of them are run-time properties
// whose inner search draws values, objects or call sequences for one compiled schema.
var FuzzProps = map[string]bool{"C04": true, "C05": true, "C06": true, "C08": true, "C09": true}

func fuzzTime(prop string) time.Duration {
	if s := os.Getenv("VERIF_FUZZTIME"); s != "" {
		if d, err := time.ParseDuration(s); err == nil {
			return d
		}
	}
	if prop == "C06" {
		return 180 * time.Second
	}
	return 90 * time.Second
}

func verifRoot() string {
	if r := os.Getenv("VERIF_ROOT"); r != "" {
		return r
	}
	return "/verif"
}

// runFuzzInput rebuilds the case and re-runs one saved fuzz input (Extra["fuzz_input"], base64 of the corpus file).
func runFuzzInput(tools *pipeline.Tools, r *Recorder, rp *Replay, prop string) (string, error) {
	enc, _ := rp.Extra["fuzz_input"].(string)
	data, err := base64.StdEncoding.DecodeString(enc)
	if err != nil {
		return "", pipeline.Infra("replay: bad fuzz_input: %v", err)
	}
	spec := &rt.Spec{Prop: prop}
	c, skip, err := buildCase(tools, r, rp, "fuzzreplay-", spec)
	if c != nil {
		defer cleanup(c)
	}
	if err != nil || skip {
		return "", err
	}
	dir := filepath.Join(c.Dir, "testdata", "fuzz", "FuzzCase")
	_ = os.MkdirAll(dir, 0o755)
	if err := os.WriteFile(filepath.Join(dir, "replayed"), data, 0o644); err != nil {
		return "", pipeline.Infra("write corpus: %v", err)
	}
	out := filepath.Join(c.Dir, "fuzz-violations.txt")
	fr, err := tools.FuzzCase(c, filepath.Join(c.Dir, "spec.json"), out, 0, true)
	if err != nil {
		return "", err
	}
	if !fr.Failed {
		return "", nil
	}
	msg, _ := os.ReadFile(out)
	if len(msg) == 0 {
		return "", pipeline.Infra("fuzz input fails without a recorded violation:\n%s", lastLines(fr.Output, 20))
	}
	return strings.TrimSpace(strings.Split(string(msg), "\n")[0]), nil
}

// FuzzCampaign is run by the driver after the rapid shards of a thorough run of a property in FuzzProps.
func FuzzCampaign(tools *pipeline.Tools, r *Recorder, prop string) (string, *Replay, error) {
	b, err := os.ReadFile(filepath.Join(verifRoot(), "replays", prop, "fixture-test-proto.json"))
	if err != nil {
		return "", nil, pipeline.Infra("fuzz campaign: no fixture case: %v", err)
	}
	var rp Replay
	if err := json.Unmarshal(b, &rp); err != nil {
		return "", nil, pipeline.Infra("fuzz campaign: %v", err)
	}
	for _, v := range rp.Variants {
		m, err := model.Build(v.File, v.Cfg)
		if err != nil {
			return "", nil, pipeline.Infra("fuzz campaign: model: %v", err)
		}
		v.Model = m
	}
	spec := &rt.Spec{Prop: prop}
	c, skip, err := buildCase(tools, r, &rp, "fuzz-", spec)
	if c != nil {
		defer cleanup(c)
	}
	if err != nil {
		return "", nil, err
	}
	if skip {
		return "", nil, nil
	}
	out := filepath.Join(c.Dir, "fuzz-violations.txt")
	fr, err := tools.FuzzCase(c, filepath.Join(c.Dir, "spec.json"), out, fuzzTime(prop), false)
	if err != nil {
		return "", nil, err
	}
	r.ClassN("fuzz_execs", fr.Execs)
	r.Class("fuzz_campaigns")
	r.Sample(map[string]interface{}{"engine": "native go test -fuzz through rapid.MakeFuzz", "schema": "test/test.proto (fixture)", "fuzztime": fuzzTime(prop).String(), "execs": fr.Execs,
		"last_line": lastLines(fr.Output, 1)})
	if !fr.Failed || len(fr.Crashers) == 0 {
		return "", nil, nil
	}
	// confirm the crasher deterministically from its saved input before reporting it
	data, err := os.ReadFile(fr.Crashers[len(fr.Crashers)-1])
	if err != nil {
		return "", nil, pipeline.Infra("fuzz campaign: crasher unreadable: %v", err)
	}
	frp := &Replay{Prop: prop, Variants: rp.Variants, Extra: map[string]interface{}{"fuzz_input": base64.StdEncoding.EncodeToString(data)}}
	msg, err := runFuzzInput(tools, r, frp, prop)
	if err != nil {
		return "", nil, err
	}
	if msg == "" {
		r.Class("fuzz_crasher_not_reproducible")
		return "", nil, nil
	}
	frp.Message = fmt.Sprintf("%s (found by the native fuzz campaign, confirmed from the saved input)", msg)
	return frp.Message, frp, nil
}
