package props

import (
	"encoding/json"
	"fmt"
	"os"
	"path/filepath"
	"strconv"
	"strings"
	"time"

	"pgregory.net/rapid"

	"verif/gen"
	"verif/model"
	"verif/pipeline"
	"verif/rt"
)

func innerChecksFromEnv(def int) int {
	if s := os.Getenv("VERIF_INNER"); s != "" {
		if n, err := strconv.Atoi(s); err == nil && n > 0 {
			return n
		}
	}
	return def
}

// drawInner draws the inner seed and fixes the inner case count in the replay.
func drawInner(t *rapid.T, rp *Replay, def int) {
	if rp.Extra == nil {
		rp.Extra = map[string]interface{}{}
	}
	rp.Extra["inner_seed"] = rapid.Uint64Range(1, 1<<40).Draw(t, "inner_seed")
	rp.Extra["inner_checks"] = innerChecksFromEnv(def)
}

func extraUint(rp *Replay, k string, def uint64) uint64 {
	switch v := rp.Extra[k].(type) {
	case float64:
		return uint64(v)
	case uint64:
		return v
	case int:
		return uint64(v)
	}
	return def
}

// buildCase generates, materialises and compiles the variants of a replay.
// skip is true when the plugin's output does not build (C01's business).
func buildCase(tools *pipeline.Tools, r *Recorder, rp *Replay, prefix string, spec *rt.Spec) (c *pipeline.Case, skip bool, err error) {
	dir, err := tools.NewCaseDir(prefix)
	if err != nil {
		return nil, false, err
	}
	c = &pipeline.Case{Dir: dir, Variants: rp.Variants}
	for _, v := range rp.Variants {
		if err := tools.Generate(v, dir); err != nil {
			return c, false, err
		}
		if v.Plugin.Failed() || v.TFText == "" {
			r.Class("skipped:plugin_failed")
			return c, true, nil
		}
	}
	spec.Models = map[string]string{}
	for _, v := range rp.Variants {
		spec.Models[v.Layout.Variant] = filepath.Join(dir, "model_"+v.Layout.Variant+".json")
	}
	if err := tools.Materialise(c, spec); err != nil {
		return c, false, err
	}
	br, err := tools.Build(c)
	if err != nil {
		return c, false, err
	}
	if !br.OK {
		r.Class("skipped:uncompilable")
		c.BuildErrors = strings.Join(firstN(br.Errors, 4), " | ")
		return c, true, nil
	}
	return c, false, nil
}

func specFor(prop string) *rt.Spec { return &rt.Spec{Prop: prop} }

func cleanup(c *pipeline.Case) { _ = os.RemoveAll(c.Dir) }

func cleanupDir(d string) { _ = os.RemoveAll(d) }

// buildCaseFull is buildCase that also tells which variant's output fails to build ("" = all fine,
// "v0"/"v1"/... = the first variant whose generated file does not compile, "?" = plugin failed).
func buildCaseFull(tools *pipeline.Tools, r *Recorder, rp *Replay, prefix string, spec *rt.Spec) (*pipeline.Case, string, error) {
	c, skip, err := buildCase(tools, r, rp, prefix, spec)
	if err != nil || !skip {
		return c, "", err
	}
	if len(rp.Variants) < 2 {
		return c, "?", nil
	}
	// find the culprit: build the first variant alone
	first := &Replay{Prop: rp.Prop, Variants: rp.Variants[:1], Extra: rp.Extra}
	c0, skip0, err := buildCase(tools, r, first, prefix+"solo-", &rt.Spec{Prop: spec.Prop})
	if c0 != nil {
		defer os.RemoveAll(c0.Dir)
	}
	if err != nil {
		return c, "", err
	}
	if skip0 {
		return c, rp.Variants[0].Layout.Variant, nil
	}
	return c, rp.Variants[1].Layout.Variant, nil
}

// runBuilt runs the inner property in a compiled case.
func runBuilt(tools *pipeline.Tools, r *Recorder, rp *Replay, c *pipeline.Case) (string, error) {
	seed := extraUint(rp, "inner_seed", 1)
	checks := extraUint(rp, "inner_checks", 100)
	out := filepath.Join(c.Dir, "result.json")
	log, err := tools.RunCase(c, filepath.Join(c.Dir, "spec.json"), out, 20*time.Minute,
		fmt.Sprintf("-rapid.checks=%d", checks), fmt.Sprintf("-rapid.seed=%d", seed), "-rapid.nofailfile", "-rapid.shrinktime=15s")
	if err != nil {
		return "", err
	}
	b, rerr := os.ReadFile(out)
	if rerr != nil {
		return "", pipeline.Infra("case binary produced no result:\n%s\n[...]\n%s", firstLines(log, 12), lastLines(log, 12))
	}
	var res rt.Result
	if err := json.Unmarshal(b, &res); err != nil {
		return "", pipeline.Infra("case result: %v", err)
	}
	if res.Harness != "" {
		return "", pipeline.Infra("inner harness: %s", res.Harness)
	}
	r.AddInner(res.Evaluations)
	for k, n := range res.Classes {
		r.ClassN(k, n)
	}
	r.NontrivialHashes(res.Nontrivial)
	for _, s := range res.Samples {
		r.Sample(map[string]interface{}{"types": rp.Variants[0].Cfg.Types, "schema": msgOrder(rp.Variants[0].File), "case": s})
	}
	if res.Violation != "" {
		return res.Violation, nil
	}
	if strings.Contains(log, "FAIL") && !strings.Contains(log, "PASS") {
		return "", pipeline.Infra("case binary failed without a recorded violation:\n%s", lastLines(log, 25))
	}
	return "", nil
}

// runInner compiles the case and runs the inner property in it.
func runInner(tools *pipeline.Tools, r *Recorder, rp *Replay, prop string, params map[string]string) (string, error) {
	spec := &rt.Spec{Prop: prop, Params: params}
	c, skip, err := buildCase(tools, r, rp, strings.ToLower(prop)+"-", spec)
	if c != nil {
		defer os.RemoveAll(c.Dir)
	}
	if err != nil || skip {
		return "", err
	}
	return runBuilt(tools, r, rp, c)
}

func lastLines(s string, n int) string {
	var keep []string
	for _, l := range strings.Split(strings.TrimRight(s, "\n"), "\n") {
		if strings.Contains(l, "[rapid] draw") {
			continue
		}
		keep = append(keep, l)
	}
	if len(keep) > n {
		keep = keep[len(keep)-n:]
	}
	return strings.Join(keep, "\n")
}

// simpleInner registers an outer property that draws one variant and runs an inner property on it.
func simpleInner(prop string, defInner int, tune func(o *gen.Opts, k *gen.KOpts), post ...func(r *Recorder, rp *Replay)) {
	Defs[prop] = &Def{
		Draw: func(t *rapid.T, r *Recorder) *Replay {
			excl := 0
			o := findingOpts(r)
			o.Excluded = &excl
			ko := gen.KOpts{}
			if tune != nil {
				tune(&o, &ko)
			}
			v := newVariant(t, "v0", o, ko, nil)
			r.Excluded("shapes", excl)
			rp := &Replay{Variants: []*pipeline.Variant{v}}
			drawInner(t, rp, defInner)
			return rp
		},
		Run: func(tools *pipeline.Tools, r *Recorder, rp *Replay) (string, error) {
			msg, err := runInner(tools, r, rp, prop, nil)
			if msg == "" && err == nil {
				for _, p := range post {
					p(r, rp)
				}
			}
			return msg, err
		},
	}
}

// c10Nontrivial: >= 2 different flags set somewhere below the root, or a multi-line comment.
func c10Nontrivial(r *Recorder, rp *Replay) {
	v := rp.Variants[0]
	flags := map[string]bool{}
	multiline := false
	for _, root := range v.Model.Roots {
		root.Walk(func(m *model.Msg) {
			if m == root {
				return
			}
			for _, a := range m.Attrs {
				if a.Required {
					flags["required"] = true
				}
				if a.Computed {
					flags["computed"] = true
				}
				if a.Sensitive {
					flags["sensitive"] = true
				}
				if len(a.Validators) > 0 {
					flags["validators"] = true
				}
				if len(a.PlanModifiers) > 0 {
					flags["plan_modifiers"] = true
				}
			}
			if len(m.Injected) > 0 {
				flags["injected"] = true
			}
		})
	}
	for _, m := range v.File.Messages {
		for _, f := range m.Fields {
			if strings.Count(strings.TrimRight(f.Comment.Leading, "\r\n"), "\n") >= 1 {
				multiline = true
			}
		}
	}
	for k := range flags {
		r.Class("flag_below_root:" + k)
	}
	if multiline {
		r.Class("multiline_comment")
	}
	if len(flags) >= 2 || multiline {
		r.Nontrivial(Hash(v))
	}
	var sample []map[string]interface{}
	for _, root := range v.Model.Roots {
		root.Walk(func(m *model.Msg) {
			for _, a := range m.Attrs {
				if len(sample) < 6 && (a.Required || a.Computed || a.Sensitive || len(a.Validators)+len(a.PlanModifiers) > 0) {
					sample = append(sample, map[string]interface{}{"field": a.TypeKey, "attribute": a.Name, "required": a.Required, "computed": a.Computed,
						"sensitive": a.Sensitive, "validators": a.Validators, "plan_modifiers": a.PlanModifiers, "description": a.Description})
				}
			}
		})
	}
	r.Sample(map[string]interface{}{"types": v.Cfg.Types, "use_state_for_unknown_by_default": v.Cfg.UseStateForUnknown, "injected_fields": v.Cfg.InjectedFields, "attributes": sample})
}

func init() {
	defer func() {
		// a replay that carries a fuzz input (engine F) is re-run through the fuzz target
		for prop := range FuzzProps {
			prop := prop
			base := Defs[prop].Run
			Defs[prop].Run = func(tools *pipeline.Tools, r *Recorder, rp *Replay) (string, error) {
				if _, ok := rp.Extra["fuzz_input"]; ok {
					return runFuzzInput(tools, r, rp, prop)
				}
				return base(tools, r, rp)
			}
		}
	}()
	simpleInner("C02", 150, nil)
	simpleInner("C03", 300, nil)
	simpleInner("C04", 300, nil)
	simpleInner("C10", 1, func(o *gen.Opts, k *gen.KOpts) { o.Comments = true; k.Rich = true }, c10Nontrivial)
	simpleInner("C05", 300, nil)
	simpleInner("C06", 400, nil)
	simpleInner("C07", 300, func(o *gen.Opts, k *gen.KOpts) { o.OneofHeavy = true })
	simpleInner("C08", 300, nil)
	simpleInner("C09", 200, nil)
	simpleInner("C19", 500, func(o *gen.Opts, k *gen.KOpts) { o.ScalarDense = true })
	simpleInner("C20", 300, nil)
}

func firstLines(s string, n int) string {
	l := strings.Split(s, "\n")
	if len(l) > n {
		l = l[:n]
	}
	return strings.Join(l, "\n")
}
