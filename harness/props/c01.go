package props

import (
	"bytes"
	"fmt"
	"go/ast"
	"go/parser"
	"go/token"
	"os"
	"path"
	"path/filepath"
	"strconv"
	"strings"

	"google.golang.org/protobuf/proto"
	"google.golang.org/protobuf/types/pluginpb"
	"pgregory.net/rapid"

	"verif/gen"
	"verif/ir"
	"verif/model"
	"verif/pipeline"
)

// findingOpts returns the descriptor options with shapes of still-open known findings excluded.
func findingOpts(r *Recorder) gen.Opts {
	o := gen.DefaultOpts()
	if os.Getenv("VERIF_TIER") == "thorough" {
		o.MaxMessages, o.MaxFields = 10, 12 // the bounds of DESIGN.md §3.1; the quick tier keeps files smaller
	}
	applyKnownFindings(&o)
	return o
}

// responseChecks verifies the process-level half of C01 and returns a message ("" = ok).
func responseChecks(tools *pipeline.Tools, v *pipeline.Variant) string {
	res := v.Plugin
	if res.Exit != 0 {
		return fmt.Sprintf("plugin exited with status %d; stderr: %s", res.Exit, tail(res.Stderr))
	}
	if len(res.Stdout) == 0 {
		return "plugin wrote nothing to stdout"
	}
	if res.ParseErr != nil || res.Resp == nil {
		return fmt.Sprintf("stdout is not a CodeGeneratorResponse: %v", res.ParseErr)
	}
	if u := res.Resp.ProtoReflect().GetUnknown(); len(u) > 0 {
		return fmt.Sprintf("response carries %d bytes of unknown fields (stdout is not just one response)", len(u))
	}
	if again, err := (proto.MarshalOptions{}).Marshal(res.Resp); err != nil || !bytes.Equal(again, res.Stdout) {
		return "stdout differs from the canonical encoding of the response it parses to (extra bytes on stdout)"
	}
	if res.Resp.Error != nil {
		return "response.error is set: " + res.Resp.GetError()
	}
	if res.Resp.GetSupportedFeatures()&uint64(pluginpb.CodeGeneratorResponse_FEATURE_PROTO3_OPTIONAL) == 0 {
		return "response does not advertise FEATURE_PROTO3_OPTIONAL"
	}
	if n := len(res.Resp.File); n != 1 {
		return fmt.Sprintf("response holds %d files, want exactly 1", n)
	}
	// expected name: protoc-gen-gogo's name for the same request with the suffix replaced
	base := strings.TrimSuffix(path.Base(v.File.Name), ".proto")
	var pbName string
	for n := range v.PB { // the struct file of the file to generate (an imported file of the package has one too)
		if path.Base(n) == base+".pb.go" {
			pbName = n
		}
	}
	if v.PB != nil && pbName != "" {
		want := strings.TrimSuffix(pbName, ".pb.go") + "_terraform.go"
		if v.TFName != want {
			return fmt.Sprintf("file is named %q, want %q", v.TFName, want)
		}
	}
	if path.Base(v.TFName) != base+"_terraform.go" {
		return fmt.Sprintf("file is named %q, want base name %q", v.TFName, base+"_terraform.go")
	}
	lic, err := os.ReadFile(filepath.Join(tools.Repo, "license.txt"))
	if err != nil || !bytes.Contains(lic, []byte("Licensed under the Apache License")) {
		return "license.txt of the repository is missing or is not the license header"
	}
	if !strings.HasPrefix(v.TFText, string(lic)) {
		return "generated file does not start with the license header"
	}
	return ""
}

func tail(b []byte) string {
	if len(b) > 600 {
		b = b[len(b)-600:]
	}
	return string(b)
}

type sig struct {
	params  []string
	results []string
}

// astChecks verifies package clause and the exact set and signatures of top-level functions.
func astChecks(v *pipeline.Variant) string {
	fset := token.NewFileSet()
	f, err := parser.ParseFile(fset, v.TFName, v.TFText, parser.SkipObjectResolution)
	if err != nil {
		return "generated file does not parse: " + err.Error()
	}
	if f.Name.Name != v.Layout.TargetName {
		return fmt.Sprintf("package clause is %q, want %q", f.Name.Name, v.Layout.TargetName)
	}
	imports := map[string]string{} // local name -> path
	for _, im := range f.Imports {
		p, _ := strconv.Unquote(im.Path.Value)
		name := path.Base(p)
		if im.Name != nil {
			name = im.Name.Name
		}
		imports[name] = p
	}
	var typ func(e ast.Expr) string
	typ = func(e ast.Expr) string {
		switch x := e.(type) {
		case *ast.StarExpr:
			return "*" + typ(x.X)
		case *ast.SelectorExpr:
			if id, ok := x.X.(*ast.Ident); ok {
				if p, ok := imports[id.Name]; ok {
					return p + "." + x.Sel.Name
				}
				return "?" + id.Name + "." + x.Sel.Name
			}
		case *ast.Ident:
			return x.Name
		}
		return fmt.Sprintf("%T", e)
	}
	flat := func(fl *ast.FieldList) []string {
		var out []string
		if fl == nil {
			return out
		}
		for _, p := range fl.List {
			n := len(p.Names)
			if n == 0 {
				n = 1
			}
			for i := 0; i < n; i++ {
				out = append(out, typ(p.Type))
			}
		}
		return out
	}
	got := map[string]sig{}
	for _, d := range f.Decls {
		fd, ok := d.(*ast.FuncDecl)
		if !ok || fd.Recv != nil {
			continue
		}
		if _, dup := got[fd.Name.Name]; dup {
			return "function declared twice: " + fd.Name.Name
		}
		got[fd.Name.Name] = sig{flat(fd.Type.Params), flat(fd.Type.Results)}
	}
	const fw = "github.com/hashicorp/terraform-plugin-framework/"
	want := map[string]sig{}
	for _, tname := range v.Cfg.Types {
		st := tname
		if v.Layout.Separate {
			st = v.Layout.StructPath + "." + tname
		}
		want["GenSchema"+tname] = sig{[]string{"context.Context"}, []string{fw + "tfsdk.Schema", fw + "diag.Diagnostics"}}
		want["Copy"+tname+"FromTerraform"] = sig{[]string{"context.Context", fw + "types.Object", "*" + st}, []string{fw + "diag.Diagnostics"}}
		want["Copy"+tname+"ToTerraform"] = sig{[]string{"context.Context", "*" + st, "*" + fw + "types.Object"}, []string{fw + "diag.Diagnostics"}}
	}
	for n, w := range want {
		g, ok := got[n]
		if !ok {
			return "missing function " + n
		}
		if strings.Join(g.params, ",") != strings.Join(w.params, ",") || strings.Join(g.results, ",") != strings.Join(w.results, ",") {
			return fmt.Sprintf("function %s has signature (%s) (%s), want (%s) (%s)", n, strings.Join(g.params, ", "), strings.Join(g.results, ", "), strings.Join(w.params, ", "), strings.Join(w.results, ", "))
		}
	}
	for n := range got {
		if _, ok := want[n]; !ok {
			return "unexpected top-level function " + n
		}
	}
	return ""
}

// newVariant draws (S, K, layout) for variant id and computes the model.
func newVariant(t *rapid.T, id string, o gen.Opts, ko gen.KOpts, separate *bool) *pipeline.Variant {
	f := gen.File(t, o)
	f.Package = id
	l := gen.DrawLayout(t, id, f, separate)
	c := gen.Config(t, f, l, ko)
	return finishVariant(t, f, c, l)
}

func finishVariant(t *rapid.T, f *ir.File, c *ir.Config, l *ir.Layout) *pipeline.Variant {
	repairNames(f, c)
	m, err := model.Build(f, c)
	if err != nil {
		t.Fatalf("harness: model: %v", err)
	}
	return &pipeline.Variant{Layout: l, File: f, Cfg: c, Model: m}
}

// repairNames removes name overrides / json tags that would make two attributes of
// one flattened message share a name (construction instead of rejection).
func repairNames(f *ir.File, c *ir.Config) {
	for i := 0; i < 50; i++ {
		m, err := model.Build(f, c)
		if err != nil {
			return
		}
		fixed := false
		for _, r := range m.Roots {
			r.Walk(func(mm *model.Msg) {
				if fixed {
					return
				}
				seen := map[string]*model.Attr{}
				for _, a := range mm.Attrs {
					if prev, dup := seen[a.Name]; dup {
						for _, x := range []*model.Attr{a, prev} {
							delete(c.NameOverrides, x.FullKey)
							delete(c.NameOverrides, x.TypeKey)
							if fl := f.Msg(x.Owner).Field(x.Chain[len(x.Chain)-1]); fl != nil {
								fl.JSONTag = nil
							}
						}
						fixed = true
						return
					}
					seen[a.Name] = a
				}
				for _, inj := range mm.Injected {
					if _, dup := seen[inj.Name]; dup {
						delete(c.InjectedFields, mm.Path)
						fixed = true
						return
					}
				}
			})
		}
		if !fixed {
			return
		}
	}
}

func init() {
	Defs["C01"] = &Def{
		Draw: func(t *rapid.T, r *Recorder) *Replay {
			excl := 0
			o := findingOpts(r)
			o.Excluded = &excl
			// a third of the cases use one of the denser profiles the run-time properties use (many oneofs, every
			// scalar kind and cast type, heavy qualification, rich per-field configuration)
			k := gen.KOpts{}
			switch rapid.IntRange(0, 8).Draw(t, "profile") {
			case 0:
				o.OneofHeavy = true
			case 1:
				o.ScalarDense = true
			case 2:
				o.QualHeavy = true
			case 3:
				k.Rich = true
				o.Comments = true
			}
			v := newVariant(t, "v0", o, k, nil)
			r.Excluded("shapes", excl)
			return &Replay{Variants: []*pipeline.Variant{v}}
		},
		Run: func(tools *pipeline.Tools, r *Recorder, rp *Replay) (string, error) {
			v := rp.Variants[0]
			dir, err := tools.NewCaseDir("c01-")
			if err != nil {
				return "", err
			}
			defer os.RemoveAll(dir)
			if err := tools.Generate(v, dir); err != nil {
				return "", err
			}
			if msg := responseChecks(tools, v); msg != "" {
				return msg, nil
			}
			if msg := astChecks(v); msg != "" {
				return msg, nil
			}
			c := &pipeline.Case{Dir: dir, Variants: []*pipeline.Variant{v}}
			if err := tools.Materialise(c, nil); err != nil {
				return "", err
			}
			br, err := tools.Build(c)
			if err != nil {
				return "", err
			}
			if !br.OK {
				return "generated file does not compile with protoc-gen-gogo's output: " + strings.Join(firstN(br.Errors, 4), " | "), nil
			}
			kinds, composite := kindsOf(v.File)
			for k := range kinds {
				r.Class("kind:" + k)
			}
			if v.Layout.Separate {
				r.Class("layout:separate")
			} else {
				r.Class("layout:same")
			}
			if v.Cfg.Sort {
				r.Class("sort:on")
			}
			if len(kinds) >= 3 && composite {
				r.Nontrivial(Hash(v))
			}
			r.Sample(map[string]interface{}{"file": v.File, "config": v.Cfg, "layout": v.Layout})
			return "", nil
		},
	}
}

func firstN(s []string, n int) []string {
	if len(s) > n {
		return s[:n]
	}
	return s
}
