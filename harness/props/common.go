// Package props holds the outer-level properties (one rapid test per listed
// property) and the bookkeeping that turns a run into an evidence file.
package props

import (
	"encoding/json"
	"fmt"
	"hash/fnv"
	"os"
	"path/filepath"
	"sort"
	"strconv"
	"sync"
	"testing"

	"pgregory.net/rapid"

	"verif/ir"
	"verif/model"
	"verif/pipeline"
)

// Shard is what one shard of a check reports to the driver.
type Shard struct {
	Prop        string            `json:"prop"`
	Seed        uint64            `json:"seed"`
	Evaluations int               `json:"evaluations"`
	Inner       int               `json:"inner_evaluations"`
	Nontrivial  []uint64          `json:"nontrivial"` // hashes of distinct non-trivial cases
	Classes     map[string]int    `json:"classes"`
	Samples     []json.RawMessage `json:"samples"`
	Excluded    map[string]int    `json:"excluded_by_known_finding,omitempty"`
	Known       []string          `json:"known_findings_seen,omitempty"`
	Infra       string            `json:"infra,omitempty"`
	Violation   string            `json:"violation,omitempty"`
	Replay      string            `json:"replay,omitempty"`
	PluginSHA   string            `json:"plugin_sha256"`
}

type Recorder struct {
	mu      sync.Mutex
	s       Shard
	seen    map[uint64]bool
	tools   *pipeline.Tools
	lastRep string
	lastRp  *Replay
}

var (
	rec     *Recorder
	recOnce sync.Once
)

func getRecorder(t *testing.T, prop string) *Recorder {
	recOnce.Do(func() {
		tools, err := pipeline.ToolsFromEnv()
		r := &Recorder{seen: map[uint64]bool{}, tools: tools}
		r.s.Prop = prop
		r.s.Classes = map[string]int{}
		r.s.Excluded = map[string]int{}
		if err != nil {
			r.s.Infra = err.Error()
		} else {
			r.s.PluginSHA = tools.PluginSHA
		}
		rec = r
	})
	return rec
}

func (r *Recorder) Eval()          { r.mu.Lock(); r.s.Evaluations++; r.mu.Unlock() }
func (r *Recorder) AddInner(n int) { r.mu.Lock(); r.s.Inner += n; r.mu.Unlock() }
func (r *Recorder) Class(c string) { r.mu.Lock(); r.s.Classes[c]++; r.mu.Unlock() }
func (r *Recorder) ClassN(c string, n int) {
	r.mu.Lock()
	r.s.Classes[c] += n
	r.mu.Unlock()
}
func (r *Recorder) Excluded(k string, n int) {
	if n == 0 {
		return
	}
	r.mu.Lock()
	r.s.Excluded[k] += n
	r.mu.Unlock()
}

func Hash(v interface{}) uint64 {
	b, _ := json.Marshal(v)
	h := fnv.New64a()
	h.Write(b)
	return h.Sum64()
}

// Nontrivial records a distinct non-trivial case by hash.
func (r *Recorder) Nontrivial(h uint64) {
	r.mu.Lock()
	if !r.seen[h] {
		r.seen[h] = true
		r.s.Nontrivial = append(r.s.Nontrivial, h)
	}
	r.mu.Unlock()
}

func (r *Recorder) NontrivialHashes(hs []uint64) {
	for _, h := range hs {
		r.Nontrivial(h)
	}
}

func (r *Recorder) Sample(v interface{}) {
	r.mu.Lock()
	defer r.mu.Unlock()
	if len(r.s.Samples) >= 4 {
		return
	}
	b, err := json.Marshal(v)
	if err == nil {
		r.s.Samples = append(r.s.Samples, b)
	}
}

func (r *Recorder) SetInfra(err error) {
	r.mu.Lock()
	if r.s.Infra == "" {
		r.s.Infra = err.Error()
	}
	r.mu.Unlock()
}

func (r *Recorder) HasInfra() bool { r.mu.Lock(); defer r.mu.Unlock(); return r.s.Infra != "" }

func (r *Recorder) flush(t *testing.T) {
	out := os.Getenv("VERIF_SHARD_OUT")
	if out == "" {
		return
	}
	r.mu.Lock()
	defer r.mu.Unlock()
	b, _ := json.MarshalIndent(&r.s, "", " ")
	_ = os.WriteFile(out, b, 0o644)
}

// Replay is what a replay file holds: everything needed to rebuild and re-run one case.
type Replay struct {
	Prop     string                 `json:"prop"`
	Message  string                 `json:"message"`
	Variants []*pipeline.Variant    `json:"variants"`
	Extra    map[string]interface{} `json:"extra,omitempty"`
	Inner    json.RawMessage        `json:"inner,omitempty"`
}

func replayDir() string {
	if d := os.Getenv("VERIF_REPLAY_DIR"); d != "" {
		return d
	}
	if r := os.Getenv("VERIF_ROOT"); r != "" {
		return r + "/replays/_tmp"
	}
	return "/verif/replays/_tmp"
}

// Fail records a violation with its replay file and fails the rapid case.
func (r *Recorder) Fail(t *rapid.T, rp *Replay, format string, args ...interface{}) {
	msg := fmt.Sprintf(format, args...)
	rp.Message = msg
	dir := replayDir()
	_ = os.MkdirAll(dir, 0o755)
	name := filepath.Join(dir, fmt.Sprintf("%s-shard%s.json", rp.Prop, os.Getenv("VERIF_SHARD")))
	b, _ := json.MarshalIndent(rp, "", " ")
	_ = os.WriteFile(name, b, 0o644)
	r.mu.Lock()
	r.s.Violation = msg
	r.s.Replay = name
	r.lastRp = rp
	r.mu.Unlock()
	t.Fatalf("%s", msg)
}

// Def is one outer property: Draw produces a case (everything random happens
// here, through rapid), Run judges it deterministically (so a replay file can
// be re-run without any search).
type Def struct {
	Draw func(t *rapid.T, r *Recorder) *Replay
	Run  func(tools *pipeline.Tools, r *Recorder, rp *Replay) (violation string, err error)
}

var Defs = map[string]*Def{}

// Check runs an outer property under rapid with the shard's bookkeeping.
func Check(t *testing.T, prop string) {
	def := Defs[prop]
	r := getRecorder(t, prop)
	defer r.flush(t)
	defer pipeline.CleanupCases()
	if s := os.Getenv("VERIF_SEED_EFFECTIVE"); s != "" {
		r.s.Seed, _ = strconv.ParseUint(s, 10, 64)
	}
	if r.s.Infra != "" {
		t.Skipf("infrastructure: %s", r.s.Infra)
		return
	}
	// after rapid's own shrinking: reduce the failing case at the level of the IR and
	// rewrite the replay file (runs before flush; rapid ends the test with Goexit)
	defer func() {
		r.mu.Lock()
		rp, file := r.lastRp, r.s.Replay
		failed := r.s.Violation != ""
		r.mu.Unlock()
		if !failed || rp == nil || file == "" || r.HasInfra() {
			return
		}
		small := reduce(def, r.tools, rp, reduceBudget())
		if small != rp {
			b, _ := json.MarshalIndent(small, "", " ")
			if os.WriteFile(file, b, 0o644) == nil {
				r.mu.Lock()
				r.s.Violation = small.Message
				r.mu.Unlock()
			}
		}
	}()
	rapid.Check(t, func(rt *rapid.T) {
		if r.HasInfra() {
			return // stop exploring; the driver reports exit 2
		}
		// a failure that was recorded but is being shrunk: clear before each attempt
		r.mu.Lock()
		r.s.Violation, r.s.Replay = "", ""
		r.mu.Unlock()
		rp := def.Draw(rt, r)
		rp.Prop = prop
		r.Eval()
		msg, err := def.Run(r.tools, r, rp)
		if r.infra(err) {
			return
		}
		if msg != "" {
			r.Fail(rt, rp, "%s", msg)
		}
		for _, v := range rp.Variants {
			if v != nil && v.File != nil && v.File.HasDep() {
				r.Class("declarations_in_imported_file")
				break
			}
		}
	})
}

// RunReplay re-runs one saved case without any search.
func RunReplay(t *testing.T, file string) {
	b, err := os.ReadFile(file)
	if err != nil {
		t.Fatalf("replay file: %v", err)
	}
	var rp Replay
	if err := json.Unmarshal(b, &rp); err != nil {
		t.Fatalf("replay file: %v", err)
	}
	def := Defs[rp.Prop]
	if def == nil {
		t.Fatalf("replay file names unknown property %q", rp.Prop)
	}
	r := getRecorder(t, rp.Prop)
	defer r.flush(t)
	defer pipeline.CleanupCases()
	if r.s.Infra != "" {
		t.Skipf("infrastructure: %s", r.s.Infra)
		return
	}
	for _, v := range rp.Variants {
		m, err := model.Build(v.File, v.Cfg)
		if err != nil {
			t.Fatalf("replay file: model: %v", err)
		}
		v.Model = m
	}
	r.Eval()
	msg, err := def.Run(r.tools, r, &rp)
	if r.infra(err) {
		t.Skipf("infrastructure: %v", err)
		return
	}
	if msg != "" {
		r.mu.Lock()
		r.s.Violation, r.s.Replay = msg, file
		r.mu.Unlock()
		t.Fatalf("%s", msg)
	}
}

// infra handles an error from the pipeline: infrastructure errors end the exploration quietly.
func (r *Recorder) infra(err error) bool {
	if err == nil {
		return false
	}
	r.SetInfra(err)
	return true
}

func sortedCopy(s []string) []string {
	o := append([]string{}, s...)
	sort.Strings(o)
	return o
}

// kindsOf summarises a file for the non-triviality rules.
func kindsOf(f *ir.File) (kinds map[string]bool, composite bool) {
	kinds = map[string]bool{}
	for _, m := range f.Messages {
		if len(m.Fields) == 0 {
			kinds["empty"] = true
		}
		for _, fl := range m.Fields {
			k := fl.Kind
			if fl.IsScalar() {
				k = "scalar:" + fl.Kind
			}
			kinds[k] = true
			if fl.Card != ir.Single {
				kinds[fl.Card] = true
				composite = true
			}
			if fl.Kind == ir.KMessage || fl.Oneof != "" || fl.Embed {
				composite = true
			}
			if fl.Oneof != "" {
				kinds["oneof"] = true
			}
			if fl.Embed {
				kinds["embed"] = true
			}
			if fl.CastType != "" {
				kinds["cast"] = true
			}
			if fl.CustomType != "" {
				kinds["custom"] = true
			}
		}
	}
	return
}
