package props

import (
	"encoding/json"
	"fmt"
	"os"
	"testing"

	"verif/model"
	"verif/pipeline"
)

// TestDumpReplay regenerates the first variant of a replay file and prints the plugin's output (debug aid).
func TestDumpReplay(t *testing.T) {
	p := os.Getenv("VERIF_DUMP")
	if p == "" {
		t.Skip()
	}
	b, err := os.ReadFile(p)
	if err != nil {
		t.Fatal(err)
	}
	var rp Replay
	if err := json.Unmarshal(b, &rp); err != nil {
		t.Fatal(err)
	}
	tools, err := pipeline.ToolsFromEnv()
	if err != nil {
		t.Fatal(err)
	}
	for _, v := range rp.Variants {
		v.Model, err = model.Build(v.File, v.Cfg)
		if err != nil {
			t.Fatal(err)
		}
		dir, _ := tools.NewCaseDir("dump-")
		if err := tools.Generate(v, dir); err != nil {
			t.Fatal(err)
		}
		fmt.Printf("exit=%d\nstderr:\n%s\n---- %s\n%s\n", v.Plugin.Exit, v.Plugin.Stderr, v.TFName, v.TFText)
		if os.Getenv("VERIF_DUMP_PB") != "" {
			for n, c := range v.PB {
				fmt.Printf("---- %s\n%s\n", n, c)
			}
		}
		fmt.Printf("---- config\n%s\n", v.Cfg.YAML(nil, nil))
	}
}

// TestReplay re-runs the case stored in $VERIF_REPLAY_FILE.
func TestReplay(t *testing.T) {
	p := os.Getenv("VERIF_REPLAY_FILE")
	if p == "" {
		t.Skip()
	}
	RunReplay(t, p)
}
