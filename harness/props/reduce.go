package props

import (
	"os"
	"strconv"
	"time"

	"verif/ir"
	"verif/model"
	"verif/pipeline"
)

// After rapid has shrunk the random draws, the failing case is reduced further at
// the level of the IR (delta debugging): selected types, unreachable messages,
// configuration sections and single fields are removed as long as the property
// still fails. Every step rebuilds and re-runs the case, so the pass is time-boxed.
// Only single-variant cases whose extra data does not name parts of the schema are reduced.

func reducible(rp *Replay) bool {
	if len(rp.Variants) != 1 {
		return false
	}
	for k := range rp.Extra {
		if k != "inner_seed" && k != "inner_checks" {
			return false
		}
	}
	return true
}

func reduceBudget() time.Duration {
	if s := os.Getenv("VERIF_REDUCETIME"); s != "" {
		if d, err := time.ParseDuration(s); err == nil {
			return d
		}
		if n, err := strconv.Atoi(s); err == nil {
			return time.Duration(n) * time.Second
		}
	}
	return 60 * time.Second
}

func reachable(f *ir.File, roots []string) map[string]bool {
	return referenced(f, roots)
}

// candidates yields reduced copies of v, biggest steps first.
func candidates(v *pipeline.Variant) []*pipeline.Variant {
	var out []*pipeline.Variant
	mk := func(edit func(f *ir.File, c *ir.Config) bool) {
		f, c := ir.Clone(v.File), ir.Clone(v.Cfg)
		if !edit(f, c) {
			return
		}
		out = append(out, &pipeline.Variant{Layout: v.Layout, File: f, Cfg: c})
	}
	// fewer selected types
	if len(v.Cfg.Types) > 1 {
		for i := range v.Cfg.Types {
			i := i
			mk(func(f *ir.File, c *ir.Config) bool {
				c.Types = append(append([]string{}, c.Types[:i]...), c.Types[i+1:]...)
				return true
			})
		}
	}
	// drop unreachable messages
	mk(func(f *ir.File, c *ir.Config) bool {
		reach := reachable(f, c.Types)
		var keep []*ir.Message
		for _, m := range f.Messages {
			if reach[m.Name] {
				keep = append(keep, m)
			}
		}
		if len(keep) == len(f.Messages) {
			return false
		}
		f.Messages = keep
		return true
	})
	// wipe configuration sections
	wipes := []func(c *ir.Config) bool{
		func(c *ir.Config) bool { x := len(c.InjectedFields) > 0; c.InjectedFields = nil; return x },
		func(c *ir.Config) bool { x := len(c.Validators) > 0; c.Validators = nil; return x },
		func(c *ir.Config) bool { x := len(c.PlanModifiers) > 0; c.PlanModifiers = nil; return x },
		func(c *ir.Config) bool { x := len(c.NameOverrides) > 0; c.NameOverrides = nil; return x },
		func(c *ir.Config) bool { x := len(c.CustomTypes) > 0; c.CustomTypes = nil; return x },
		func(c *ir.Config) bool { x := len(c.Suffixes) > 0; c.Suffixes = nil; return x },
		func(c *ir.Config) bool { x := len(c.ExcludeFields) > 0; c.ExcludeFields = nil; return x },
		func(c *ir.Config) bool { x := len(c.RequiredFields) > 0; c.RequiredFields = nil; return x },
		func(c *ir.Config) bool { x := len(c.ComputedFields) > 0; c.ComputedFields = nil; return x },
		func(c *ir.Config) bool { x := len(c.SensitiveFields) > 0; c.SensitiveFields = nil; return x },
		func(c *ir.Config) bool { x := c.Sort; c.Sort = false; return x },
		func(c *ir.Config) bool { x := c.UseStateForUnknown; c.UseStateForUnknown = false; return x },
	}
	for _, w := range wipes {
		w := w
		mk(func(f *ir.File, c *ir.Config) bool { return w(c) })
	}
	// remove single fields (a message keeps at least one; oneof members and embedded fields included)
	for mi, m := range v.File.Messages {
		if len(m.Fields) <= 1 {
			continue
		}
		for fi := range m.Fields {
			mi, fi := mi, fi
			mk(func(f *ir.File, c *ir.Config) bool {
				fs := f.Messages[mi].Fields
				f.Messages[mi].Fields = append(append([]*ir.Field{}, fs[:fi]...), fs[fi+1:]...)
				return true
			})
		}
	}
	// simplify fields
	for mi, m := range v.File.Messages {
		for fi, fl := range m.Fields {
			mi, fi := mi, fi
			if fl.JSONTag != nil || fl.Comment.Leading != "" || fl.Comment.Trailing != "" || len(fl.Comment.Detached) > 0 {
				mk(func(f *ir.File, c *ir.Config) bool {
					x := f.Messages[mi].Fields[fi]
					x.JSONTag, x.Comment = nil, ir.Comments{}
					return true
				})
			}
			if fl.CastType != "" {
				mk(func(f *ir.File, c *ir.Config) bool { f.Messages[mi].Fields[fi].CastType = ""; return true })
			}
		}
	}
	return out
}

// reduce returns a smaller replay that still violates the property (or rp itself).
func reduce(def *Def, tools *pipeline.Tools, rp *Replay, budget time.Duration) *Replay {
	if !reducible(rp) {
		return rp
	}
	deadline := time.Now().Add(budget)
	cur := rp
	scratch := &Recorder{seen: map[uint64]bool{}, tools: tools}
	scratch.s.Classes = map[string]int{}
	scratch.s.Excluded = map[string]int{}
	for progress := true; progress && time.Now().Before(deadline); {
		progress = false
		for _, cand := range candidates(cur.Variants[0]) {
			if time.Now().After(deadline) {
				break
			}
			m, err := model.Build(cand.File, cand.Cfg)
			if err != nil || len(m.Roots) == 0 {
				continue
			}
			cand.Model = m
			try := &Replay{Prop: cur.Prop, Variants: []*pipeline.Variant{cand}, Extra: cur.Extra}
			msg, err := def.Run(tools, scratch, try)
			if err != nil || msg == "" {
				continue
			}
			try.Message = msg
			cur = try
			progress = true
			break
		}
	}
	return cur
}
