package props

import (
	"fmt"
	"go/parser"
	"go/token"
	"regexp"
	"sort"
	"strconv"
	"strings"

	"pgregory.net/rapid"

	"verif/desc"
	"verif/gen"
	"verif/ir"
	"verif/model"
	"verif/pipeline"
)

// sharedSeparate derives the layout of a second variant that reuses the struct package of l0
// and places its generated file into a package of its own.
func sharedSeparate(t *rapid.T, l0 *ir.Layout, id string) *ir.Layout {
	name := rapid.SampledFrom([]string{"tfschema", "provider", "types", "schema", "gen", "diag", "tf"}).Draw(t, "targetpkg1")
	return &ir.Layout{Variant: id, StructPath: l0.StructPath, StructName: l0.StructName, StructDir: l0.StructDir,
		Separate: true, TargetName: name, TargetDir: id + "/tf/" + name, TargetPath: ir.Module + "/" + id + "/tf/" + name,
		UseOverride: rapid.Bool().Draw(t, "override1"), QualifiedTF: l0.QualifiedTF, SharedStruct: true}
}

func importsOf(name, src string) map[string]bool {
	out := map[string]bool{}
	f, err := parser.ParseFile(token.NewFileSet(), name, src, parser.ImportsOnly)
	if err != nil {
		return out
	}
	for _, im := range f.Imports {
		p, _ := strconv.Unquote(im.Path.Value)
		out[p] = true
	}
	return out
}

// ---------------------------------------------------------------- C13

func qualKinds(f *ir.File, types []string) int {
	kinds := map[string]bool{}
	for _, o := range model.Occurrences(f, types) {
		fl := o.Field
		if fl.CastType != "" {
			kinds["cast"] = true
		}
		if fl.Kind == ir.KEnum {
			kinds["enum"] = true
		}
		if fl.Oneof != "" {
			kinds["oneof"] = true
		}
		if fl.Embed && fl.IsNullable() {
			kinds["embedded_nullable"] = true
		}
		if fl.Embed {
			kinds["embedded"] = true
		}
		if fl.Kind == ir.KMessage && fl.Card == ir.Map {
			kinds["map_of_message"] = true
		}
		if fl.Kind == ir.KMessage && fl.Card == ir.Repeated {
			kinds["list_of_message"] = true
		}
		if fl.CustomType != "" {
			kinds["custom"] = true
		}
	}
	return len(kinds)
}

func init() {
	Defs["C13"] = &Def{
		Draw: func(t *rapid.T, r *Recorder) *Replay {
			excl := 0
			o := findingOpts(r)
			o.Excluded = &excl
			o.QualHeavy = true
			same := false
			v0 := newVariant(t, "v0", o, gen.KOpts{}, &same)
			r.Excluded("shapes", excl)
			l1 := sharedSeparate(t, v0.Layout, "v1")
			c1 := gen.Rebase(v0.Cfg, l1, true)
			v1 := finishVariant(t, v0.File, c1, l1)
			rp := &Replay{Variants: []*pipeline.Variant{v0, v1}}
			drawInner(t, rp, 200)
			return rp
		},
		Run: func(tools *pipeline.Tools, r *Recorder, rp *Replay) (string, error) {
			v1 := rp.Variants[1]
			spec := specFor("C13")
			c, skip, err := buildCaseFull(tools, r, rp, "c13-", spec)
			if c != nil {
				defer cleanup(c)
			}
			if err != nil {
				return "", err
			}
			if skip != "" {
				if skip == "v1" {
					// the same-package variant builds, the separate-package one does not
					return "the separate-package variant does not build although the same-package variant does: " + c.BuildErrors, nil
				}
				return "", nil
			}
			if !importsOf(v1.TFName, v1.TFText)[v1.Layout.StructPath] {
				return fmt.Sprintf("the separate-package file does not import the struct package %s", v1.Layout.StructPath), nil
			}
			msg, err := runBuilt(tools, r, rp, c)
			if err != nil || msg != "" {
				return msg, err
			}
			n := qualKinds(rp.Variants[0].File, rp.Variants[0].Cfg.Types)
			r.Class(fmt.Sprintf("qualification_sensitive_kinds:%d", n))
			if v1.Layout.UseOverride {
				r.Class("import_path_overrides")
			}
			if n >= 3 {
				r.Nontrivial(Hash(rp.Variants))
			}
			return "", nil
		},
	}
}

// ---------------------------------------------------------------- C11

type c11Case struct {
	Option  string `json:"option"`
	Key     string `json:"key"`
	Full    bool   `json:"full"`
	Message string `json:"message"`
	Field   string `json:"field"`
	Paths   int    `json:"paths"` // number of occurrences of the addressed Message.Field below the selected roots
}

var c11Options = []string{"exclude_fields", "required_fields", "computed_fields", "sensitive_fields", "name_overrides", "validators", "plan_modifiers"}

func hasAnyKey(c *ir.Config, opt string, keys ...string) bool {
	for _, k := range keys {
		if k == "" {
			continue
		}
		switch opt {
		case "exclude_fields":
			if ir.Has(c.ExcludeFields, k) {
				return true
			}
		case "required_fields":
			if ir.Has(c.RequiredFields, k) {
				return true
			}
		case "computed_fields":
			if ir.Has(c.ComputedFields, k) {
				return true
			}
		case "sensitive_fields":
			if ir.Has(c.SensitiveFields, k) {
				return true
			}
		case "name_overrides":
			if _, ok := c.NameOverrides[k]; ok {
				return true
			}
		case "validators":
			if _, ok := c.Validators[k]; ok {
				return true
			}
		case "plan_modifiers":
			if _, ok := c.PlanModifiers[k]; ok {
				return true
			}
		}
	}
	return false
}

func init() {
	Defs["C11"] = &Def{
		Draw: func(t *rapid.T, r *Recorder) *Replay {
			excl := 0
			o := findingOpts(r)
			o.Excluded = &excl
			o.MultiPath = true
			v0 := newVariant(t, "v0", o, gen.KOpts{NoCustom: true, ManyTypes: rapid.Bool().Draw(t, "manytypes")}, nil)
			r.Excluded("shapes", excl)
			f, c0 := v0.File, v0.Cfg
			occ := model.Occurrences(f, c0.Types)
			count := map[string]int{}
			for _, oc := range occ {
				count[oc.TypeKey]++
			}
			// candidates: non-embedding, not excluded in K0
			m0 := v0.Model
			_ = m0
			var cands []model.Occurrence
			for _, oc := range occ {
				if oc.Embed || hasAnyKey(c0, "exclude_fields", oc.TypeKey, oc.FullKey, oc.EmbedKey) {
					continue
				}
				cands = append(cands, oc)
			}
			var cs c11Case
			c1 := ir.Clone(c0)
			if len(cands) > 0 {
				// prefer fields of messages that occur at several paths
				oc := rapid.SampledFrom(cands).Draw(t, "target")
				for _, x := range cands {
					if count[x.TypeKey] > count[oc.TypeKey] && rapid.Bool().Draw(t, "prefer_multi") {
						oc = x
					}
				}
				opt := rapid.SampledFrom(c11Options).Draw(t, "option")
				if hasAnyKey(c0, opt, oc.TypeKey, oc.FullKey, oc.EmbedKey) {
					opt = "" // already addressed in K0: the variants are identical (a valid, trivial case)
				}
				if opt == "exclude_fields" {
					// never exclude every field of a message
					n := 0
					msg := f.Msg(oc.Message)
					for _, fl := range msg.Fields {
						if hasAnyKey(c0, "exclude_fields", oc.Message+"."+fl.Name) {
							n++
						}
					}
					for _, x := range occ {
						if x.Message == oc.Message && x.FullKey != "" && ir.Has(c0.ExcludeFields, x.FullKey) {
							n++
						}
					}
					real := 0 // an embedded message without fields leaves nothing to convert
					for _, mf := range msg.Fields {
						if mf.Embed {
							if sub := f.Msg(mf.Type); sub != nil && len(sub.Fields) == 0 {
								continue
							}
						}
						real++
					}
					for _, x := range occ {
						if x.Message == oc.Message && x.EmbedKey != "" && ir.Has(c0.ExcludeFields, x.EmbedKey) {
							n++
						}
					}
					if n+1 >= real {
						opt = "sensitive_fields"
						if hasAnyKey(c0, opt, oc.TypeKey, oc.FullKey, oc.EmbedKey) {
							opt = ""
						}
					}
				}
				full := oc.FullKey != "" && rapid.Bool().Draw(t, "fullkey")
				key := oc.TypeKey
				if full {
					key = oc.FullKey
				} else if oc.EmbedKey != "" && rapid.Bool().Draw(t, "embedkey") {
					key = oc.EmbedKey
				}
				cs = c11Case{Option: opt, Key: key, Full: full, Message: oc.Message, Field: oc.Field.Name, Paths: count[oc.TypeKey]}
				switch opt {
				case "exclude_fields":
					c1.ExcludeFields = append(c1.ExcludeFields, key)
				case "required_fields":
					c1.RequiredFields = append(c1.RequiredFields, key)
				case "computed_fields":
					c1.ComputedFields = append(c1.ComputedFields, key)
				case "sensitive_fields":
					c1.SensitiveFields = append(c1.SensitiveFields, key)
				case "name_overrides":
					if c1.NameOverrides == nil {
						c1.NameOverrides = map[string]string{}
					}
					c1.NameOverrides[key] = "c11_renamed_attr"
				case "validators":
					if c1.Validators == nil {
						c1.Validators = map[string][]string{}
					}
					c1.Validators[key] = []string{gen.SupportPath + ".V(77)"}
				case "plan_modifiers":
					if c1.PlanModifiers == nil {
						c1.PlanModifiers = map[string][]string{}
					}
					c1.PlanModifiers[key] = []string{gen.SupportPath + ".PM(77)"}
				}
			}
			l1 := sharedSeparate(t, v0.Layout, "v1")
			c1 = gen.Rebase(c1, l1, true)
			v1 := finishVariant(t, f, c1, l1)
			rp := &Replay{Variants: []*pipeline.Variant{v0, v1}}
			setExtra(rp, "c11", cs)
			drawInner(t, rp, 100)
			return rp
		},
		Run: func(tools *pipeline.Tools, r *Recorder, rp *Replay) (string, error) {
			var cs c11Case
			extraInto(rp, "c11", &cs)
			spec := specFor("C11")
			c, skip, err := buildCaseFull(tools, r, rp, "c11-", spec)
			if c != nil {
				defer cleanup(c)
			}
			if err != nil || skip != "" {
				return "", err
			}
			msg, err := runBuilt(tools, r, rp, c)
			if err != nil || msg != "" {
				if msg != "" {
					msg = fmt.Sprintf("[entry %s: %q] %s", cs.Option, cs.Key, msg)
				}
				return msg, err
			}
			r.Class("option:" + cs.Option)
			if cs.Full {
				r.Class("key:full_path")
			} else {
				r.Class("key:Message.Field")
			}
			if cs.Option != "" && cs.Paths >= 2 {
				r.Class("message_at>=2_paths")
				r.Nontrivial(Hash([]interface{}{rp.Variants[0], cs}))
			}
			r.Sample(map[string]interface{}{"entry": cs, "types": rp.Variants[0].Cfg.Types})
			return "", nil
		},
	}
}

// ---------------------------------------------------------------- C15 (sort off)

// c15Unsorted compares schema and converter behaviour of S and its permutation with sort off (engine R).
func c15Unsorted(tools *pipeline.Tools, r *Recorder, rp *Replay, pf *ir.File) (string, error) {
	v0 := rp.Variants[0]
	pf.Package = "v1"
	l0 := v0.Layout
	re := func(s string) string { return strings.Replace(s, "v0", "v1", 1) }
	l1 := &ir.Layout{Variant: "v1", StructPath: re(l0.StructPath), StructName: l0.StructName, StructDir: re(l0.StructDir), Separate: l0.Separate,
		TargetName: l0.TargetName, TargetPath: re(l0.TargetPath), TargetDir: re(l0.TargetDir), UseOverride: l0.UseOverride, QualifiedTF: l0.QualifiedTF}
	if pf.GoPackage == "" {
		l1.StructName = "v1"
		if !l0.Separate {
			l1.TargetName = "v1"
		}
	} else {
		pf.GoPackage = strings.Replace(pf.GoPackage, "/v0/", "/v1/", 1)
	}
	c1 := gen.Rebase(v0.Cfg, l1, v0.Cfg.TargetPackageName != "")
	m1, err := model.Build(pf, c1)
	if err != nil {
		return "", pipeline.Infra("model: %v", err)
	}
	v1 := &pipeline.Variant{Layout: l1, File: pf, Cfg: c1, Model: m1}
	rp2 := &Replay{Prop: "C15", Variants: []*pipeline.Variant{v0, v1}, Extra: rp.Extra}
	spec := specFor("C15")
	c, skip, err := buildCaseFull(tools, r, rp2, "c15-", spec)
	if c != nil {
		defer cleanup(c)
	}
	if err != nil || skip != "" {
		return "", err
	}
	return runBuilt(tools, r, rp2, c)
}

// ---------------------------------------------------------------- C17

var undefinedHook = regexp.MustCompile(`undefined: (GenSchema|CopyFrom|CopyTo)[A-Za-z0-9_]+`)

// c17Flip: the generator emits no conversion of its own for a custom field, so changing the
// field's own proto type must not change the generated functions.
func c17Flip(tools *pipeline.Tools, r *Recorder, rp *Replay) (string, error) {
	v := rp.Variants[0]
	// a Message.Field is flipped only if every occurrence of it below the selected types is custom
	// (a custom_types entry addresses one occurrence; elsewhere the field is an ordinary one)
	all, custom := map[[2]string]int{}, map[[2]string]int{}
	for _, root := range v.Model.Roots {
		root.Walk(func(m *model.Msg) {
			for _, a := range m.Attrs {
				if a.Kind == "placeholder" {
					continue
				}
				k := [2]string{a.Owner, a.Chain[len(a.Chain)-1]}
				all[k]++
				if a.Custom != nil && a.Kind != ir.KMessage && a.Kind != ir.KEnum {
					custom[k]++
				}
			}
		})
	}
	var targets [][2]string
	for k, n := range custom {
		if n == all[k] {
			targets = append(targets, k)
		}
	}
	sort.Slice(targets, func(i, j int) bool { return targets[i][0]+"."+targets[i][1] < targets[j][0]+"."+targets[j][1] })
	if len(targets) == 0 {
		return "", nil
	}
	dir, err := tools.NewCaseDir("c17-")
	if err != nil {
		return "", err
	}
	defer cleanupDir(dir)
	yaml := v.Cfg.YAML(nil, nil)
	base, err := runReq(tools, dir, desc.BuildFile(v.File), yaml, "", nil, nil)
	if err != nil {
		return "", err
	}
	if msg := okResult(base); msg != "" {
		return "", nil
	}
	baseF, perr := funcTexts("base", base.Content())
	if perr != nil {
		return "", nil
	}
	flipped := ir.Clone(v.File)
	seen := map[[2]string]bool{}
	for _, tg := range targets {
		if seen[tg] {
			continue
		}
		seen[tg] = true
		fl := flipped.Msg(tg[0]).Field(tg[1])
		if fl.Kind == "string" {
			fl.Kind = "int64"
		} else {
			fl.Kind = "string"
		}
		fl.CastType = ""
	}
	res, err := runReq(tools, dir, desc.BuildFile(flipped), yaml, "", nil, nil)
	if err != nil {
		return "", err
	}
	if msg := okResult(res); msg != "" {
		return "changing the proto type of custom fields makes generation fail: " + msg, nil
	}
	gotF, perr := funcTexts("flipped", res.Content())
	if perr != nil {
		return "file generated after changing the proto type of custom fields does not parse", nil
	}
	for _, tn := range v.Cfg.Types {
		for _, fn := range threeFuncs(tn) {
			if baseF[fn] != gotF[fn] {
				return fmt.Sprintf("the generator emits a conversion of its own for a custom field: changing the proto type of %v changes %s: %s", targets, fn, firstDiff(baseF[fn], gotF[fn])), nil
			}
		}
	}
	r.Class("flip_checked")
	return "", nil
}

func init() {
	simpleInner("C17", 200, func(o *gen.Opts, k *gen.KOpts) { o.CustomFields = true; k.CustomRich = true })
	Defs["C17"].Run = func(tools *pipeline.Tools, r *Recorder, rp *Replay) (string, error) {
		c, skip, err := buildCaseFull(tools, r, rp, "c17-", specFor("C17"))
		if c != nil {
			defer cleanup(c)
		}
		if err != nil {
			return "", err
		}
		if skip != "" {
			// The harness supplies the three hooks under the suffix the property prescribes; a call to
			// a hook of another name is this property's violation (any other build failure is C01's).
			if m := undefinedHook.FindString(c.BuildErrors); m != "" {
				return "the generated code calls a hook the documented suffix rule does not name: " + c.BuildErrors, nil
			}
			return "", nil
		}
		msg, err := runBuilt(tools, r, rp, c)
		if msg != "" || err != nil {
			return msg, err
		}
		return c17Flip(tools, r, rp)
	}
}
