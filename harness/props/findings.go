package props

import (
	"os"
	"strings"

	"verif/gen"
)

// applyKnownFindings switches off the shapes covered by still-open known findings.
func applyKnownFindings(o *gen.Opts) {
	for _, f := range strings.Split(os.Getenv("VERIF_EXCLUDE"), ",") {
		switch strings.TrimSpace(f) {
		case "F1":
			o.AllowMapBytes = false
		case "F2":
			o.AllowEmptyInCollections = false
		case "F3":
			o.AllowNullableEmbed = false
		case "F4":
			o.AllowNullableEmbedComplex = false
		case "F10":
			o.AllowDurationCastInOneof = false
		case "F11":
			o.AllowOneofInEmbedded = false
		}
	}
}
