package props

import (
	"crypto/sha256"
	"encoding/hex"
	"encoding/json"
	"fmt"
	"go/ast"
	"go/parser"
	"go/token"
	"os"
	"path"
	"path/filepath"
	"sort"
	"strings"

	descpb "github.com/gogo/protobuf/protoc-gen-gogo/descriptor"
	"pgregory.net/rapid"

	"verif/desc"
	"verif/gen"
	"verif/ir"
	"verif/pipeline"
)

// ---------------------------------------------------------------- helpers

func setExtra(rp *Replay, k string, v interface{}) {
	if rp.Extra == nil {
		rp.Extra = map[string]interface{}{}
	}
	rp.Extra[k] = v
}

// extraInto decodes rp.Extra[k] (typed when freshly drawn, generic after a JSON round trip) into out.
func extraInto(rp *Replay, k string, out interface{}) bool {
	v, ok := rp.Extra[k]
	if !ok {
		return false
	}
	b, err := json.Marshal(v)
	if err != nil {
		return false
	}
	return json.Unmarshal(b, out) == nil
}

// lcg is a tiny deterministic permutation source; its seed is always a rapid draw
// (stored in the replay file), so runs stay a pure function of the drawn case.
type lcg struct{ s uint64 }

func (l *lcg) next() uint64 {
	l.s = l.s*6364136223846793005 + 1442695040888963407
	return l.s >> 33
}

func shufflerFrom(seed uint64) ir.Shuffler {
	if seed == 0 {
		return nil
	}
	l := &lcg{s: seed}
	return func(n int) []int {
		p := make([]int, n)
		for i := range p {
			p[i] = i
		}
		for i := n - 1; i > 0; i-- {
			j := int(l.next() % uint64(i+1))
			p[i], p[j] = p[j], p[i]
		}
		return p
	}
}

// funcTexts returns name -> source text (doc comment included) of the top-level functions.
func funcTexts(name, src string) (map[string]string, error) {
	fset := token.NewFileSet()
	f, err := parser.ParseFile(fset, name, src, parser.ParseComments)
	if err != nil {
		return nil, err
	}
	out := map[string]string{}
	for _, d := range f.Decls {
		fd, ok := d.(*ast.FuncDecl)
		if !ok || fd.Recv != nil {
			continue
		}
		start := fd.Pos()
		if fd.Doc != nil {
			start = fd.Doc.Pos()
		}
		out[fd.Name.Name] = src[fset.Position(start).Offset:fset.Position(fd.End()).Offset]
	}
	return out, nil
}

func funcNames(m map[string]string) []string {
	var out []string
	for k := range m {
		out = append(out, k)
	}
	sort.Strings(out)
	return out
}

func threeFuncs(t string) []string {
	return []string{"GenSchema" + t, "Copy" + t + "FromTerraform", "Copy" + t + "ToTerraform"}
}

func sha(b []byte) string {
	s := sha256.Sum256(b)
	return hex.EncodeToString(s[:8])
}

// runReq writes the YAML (if any) into dir and runs the plugin on the request.
func runReq(tools *pipeline.Tools, dir string, fd *descpb.FileDescriptorProto, yaml string, param string, before, after []*descpb.FileDescriptorProto) (*pipeline.PluginResult, error) {
	if yaml != "" {
		if err := os.WriteFile(filepath.Join(dir, "cfg.yaml"), []byte(yaml), 0o644); err != nil {
			return nil, pipeline.Infra("write yaml: %v", err)
		}
		if param != "" {
			param = "config=cfg.yaml," + param
		} else {
			param = "config=cfg.yaml"
		}
	}
	return tools.RunPlugin(desc.MarshalRequest(desc.Request(fd, param, before, after)), dir)
}

func okResult(res *pipeline.PluginResult) string {
	if res.Exit != 0 {
		return fmt.Sprintf("plugin exited with status %d: %s", res.Exit, tail(res.Stderr))
	}
	if res.Resp == nil || res.Resp.Error != nil || len(res.Resp.File) != 1 {
		return "plugin did not return exactly one file"
	}
	return ""
}

// sameLayoutVariant draws (S, K) for the generator-level properties (no compile): same-package or separate at random.
func genLevelVariant(t *rapid.T, r *Recorder, tune func(o *gen.Opts, k *gen.KOpts)) *pipeline.Variant {
	excl := 0
	o := findingOpts(r)
	o.Excluded = &excl
	ko := gen.KOpts{}
	if tune != nil {
		tune(&o, &ko)
	}
	v := newVariant(t, "v0", o, ko, nil)
	r.Excluded("shapes", excl)
	return v
}

// ---------------------------------------------------------------- C12

type extraFile struct {
	File     *ir.File `json:"file"`
	Before   bool     `json:"before"`
	Imported bool     `json:"imported"`
}

type c12Case struct {
	TypesA    []string      `json:"types_a"`
	ExtraMsgs []*ir.Message `json:"extra_msgs"`
	Prepend   bool          `json:"prepend"`
	Files     []extraFile   `json:"files"`
	// Sparse: the generated file's SourceCodeInfo only has locations for commented elements (descriptor sets
	// written by tools other than protoc omit the rest), while the extra files keep all of theirs
	Sparse bool `json:"sparse"`
}

func referenced(f *ir.File, roots []string) map[string]bool {
	seen := map[string]bool{}
	var walk func(n string)
	walk = func(n string) {
		if seen[n] {
			return
		}
		seen[n] = true
		if m := f.Msg(n); m != nil {
			for _, fl := range m.Fields {
				if fl.Kind == ir.KMessage {
					walk(fl.Type)
				}
			}
		}
	}
	for _, r := range roots {
		walk(r)
	}
	return seen
}

func init() {
	Defs["C12"] = &Def{
		Draw: func(t *rapid.T, r *Recorder) *Replay {
			many := rapid.Bool().Draw(t, "manytypes")
			v := genLevelVariant(t, r, func(o *gen.Opts, k *gen.KOpts) { k.ManyTypes = many })
			rp := &Replay{Variants: []*pipeline.Variant{v}}
			var c c12Case
			// A: non-empty subset of B = v.Cfg.Types (a proper one when B has several types, two cases in three)
			for _, n := range v.Cfg.Types {
				if rapid.Bool().Draw(t, "inA") {
					c.TypesA = append(c.TypesA, n)
				}
			}
			if len(c.TypesA) == 0 {
				c.TypesA = []string{rapid.SampledFrom(v.Cfg.Types).Draw(t, "a1")}
			}
			if len(c.TypesA) == len(v.Cfg.Types) && len(c.TypesA) > 1 && rapid.IntRange(0, 2).Draw(t, "proper") != 0 {
				i := rapid.IntRange(0, len(c.TypesA)-1).Draw(t, "dropA")
				c.TypesA = append(append([]string{}, c.TypesA[:i]...), c.TypesA[i+1:]...)
			}
			// extra messages in f and extra unrelated files, with fresh names
			used := map[string]bool{}
			for _, m := range v.File.Messages {
				used[m.Name] = true
			}
			o := gen.DefaultOpts()
			applyKnownFindings(&o)
			o.MaxMessages, o.NoCustom = 3, true
			fresh := func(f *ir.File, tag string) {
				ren := map[string]string{}
				for _, m := range f.Messages {
					ren[m.Name] = "Zz" + tag + m.Name
				}
				for _, m := range f.Messages {
					m.Name = ren[m.Name]
					for _, fl := range m.Fields {
						if fl.Kind == ir.KMessage {
							fl.Type = ren[fl.Type]
						}
						if fl.Embed {
							fl.Name = fl.Type
						}
					}
				}
			}
			if rapid.Bool().Draw(t, "extramsgs") {
				ef := gen.File(t, o)
				fresh(ef, "M")
				// only enum-free messages can be moved into f without clashes
				for _, m := range ef.Messages {
					ok := true
					for _, fl := range m.Fields {
						if fl.Kind == ir.KEnum {
							ok = false
						}
					}
					_ = ok
				}
				dropEnums(ef)
				c.ExtraMsgs = ef.Messages
				c.Prepend = rapid.Bool().Draw(t, "prepend")
			}
			nf := rapid.IntRange(0, 2).Draw(t, "nfiles")
			for i := 0; i < nf; i++ {
				ef := gen.File(t, o)
				fresh(ef, fmt.Sprintf("F%d", i))
				for _, e := range ef.Enums {
					e.Name = fmt.Sprintf("ZzF%d%s", i, e.Name)
					for j := range e.Values {
						e.Values[j].Name = fmt.Sprintf("ZZF%d_%s", i, e.Values[j].Name)
					}
				}
				for _, m := range ef.Messages {
					for _, fl := range m.Fields {
						if fl.Kind == ir.KEnum {
							fl.Type = fmt.Sprintf("ZzF%d%s", i, fl.Type)
						}
					}
				}
				ef.Name = fmt.Sprintf("extra%d.proto", i)
				if rapid.IntRange(0, 2).Draw(t, "samebase") == 0 {
					// an unrelated file of another package and directory that happens to have the generated file's base name
					ef.Name = fmt.Sprintf("third_party%d/%s", i, path.Base(v.File.Name))
				}
				ef.Package = fmt.Sprintf("extra%d", i)
				ef.GoPackage = fmt.Sprintf("vcase.test/m/extra%d", i)
				x := extraFile{File: ef, Imported: rapid.Bool().Draw(t, "imported")}
				x.Before = x.Imported || rapid.Bool().Draw(t, "before")
				c.Files = append(c.Files, x)
			}
			c.Sparse = rapid.IntRange(0, 2).Draw(t, "sparse") == 0
			setExtra(rp, "c12", c)
			return rp
		},
		Run: func(tools *pipeline.Tools, r *Recorder, rp *Replay) (string, error) {
			v := rp.Variants[0]
			var c c12Case
			if !extraInto(rp, "c12", &c) {
				return "", pipeline.Infra("replay lacks c12 data")
			}
			dir, err := tools.NewCaseDir("c12-")
			if err != nil {
				return "", err
			}
			defer os.RemoveAll(dir)
			run := func(f *ir.File, types []string, files []extraFile) (map[string]string, string, error) {
				cfg := ir.Clone(v.Cfg)
				cfg.Types = types
				fd := desc.BuildFile(f)
				if c.Sparse {
					var keep []*descpb.SourceCodeInfo_Location
					for _, l := range fd.SourceCodeInfo.Location {
						if l.LeadingComments != nil || l.TrailingComments != nil || len(l.LeadingDetachedComments) > 0 {
							keep = append(keep, l)
						}
					}
					fd.SourceCodeInfo.Location = keep
				}
				var before, after []*descpb.FileDescriptorProto
				for _, x := range files {
					xd := desc.BuildFile(x.File)
					if x.Imported {
						fd.Dependency = append(fd.Dependency, xd.GetName())
					}
					if x.Before {
						before = append(before, xd)
					} else {
						after = append(after, xd)
					}
				}
				res, err := runReq(tools, dir, fd, cfg.YAML(nil, nil), "", before, after)
				if err != nil {
					return nil, "", err
				}
				if msg := okResult(res); msg != "" {
					return nil, msg, nil
				}
				ft, perr := funcTexts(res.Resp.File[0].GetName(), res.Content())
				if perr != nil {
					return nil, "generated file does not parse: " + perr.Error(), nil
				}
				var want []string
				for _, t := range types {
					want = append(want, threeFuncs(t)...)
				}
				sort.Strings(want)
				if got := funcNames(ft); strings.Join(got, ",") != strings.Join(want, ",") {
					return nil, fmt.Sprintf("types=%v: output defines functions %v, want exactly %v", types, got, want), nil
				}
				return ft, "", nil
			}
			fB, msg, err := run(v.File, v.Cfg.Types, nil)
			if err != nil || msg != "" {
				return msg, err
			}
			fA, msg, err := run(v.File, c.TypesA, nil)
			if err != nil || msg != "" {
				return msg, err
			}
			ext := ir.Clone(v.File)
			if c.Prepend {
				ext.Messages = append(append([]*ir.Message{}, c.ExtraMsgs...), ext.Messages...)
			} else {
				ext.Messages = append(ext.Messages, c.ExtraMsgs...)
			}
			fE, msg, err := run(ext, c.TypesA, c.Files)
			if err != nil || msg != "" {
				return "with extra messages/files: " + msg, err
			}
			for _, t := range c.TypesA {
				for _, fn := range threeFuncs(t) {
					if fA[fn] != fB[fn] {
						return fmt.Sprintf("function %s differs between types=%v and types=%v: %s", fn, c.TypesA, v.Cfg.Types, firstDiff(fA[fn], fB[fn])), nil
					}
					if fA[fn] != fE[fn] {
						return fmt.Sprintf("function %s changes when unrelated messages / files are added to the request: %s", fn, firstDiff(fA[fn], fE[fn])), nil
					}
				}
			}
			ref := referenced(v.File, c.TypesA)
			nonSelRef := false
			for n := range ref {
				if !ir.Has(c.TypesA, n) {
					nonSelRef = true
				}
			}
			r.Class(fmt.Sprintf("extra_files:%d", len(c.Files)))
			if c.Sparse {
				r.Class("sparse_source_info")
			}
			if len(c.ExtraMsgs) > 0 {
				r.Class("extra_messages")
			}
			if len(v.Cfg.Types) > len(c.TypesA) && nonSelRef {
				r.Class("B>A_and_nonselected_referenced")
				r.Nontrivial(Hash([]interface{}{v, c}))
			}
			r.Sample(map[string]interface{}{"types_b": v.Cfg.Types, "types_a": c.TypesA, "extra_messages": len(c.ExtraMsgs), "extra_files": len(c.Files), "messages": len(v.File.Messages)})
			return "", nil
		},
	}
}

// dropEnums turns enum fields into int32 fields (extra messages moved into another file must not reference its enums).
func dropEnums(f *ir.File) {
	for _, m := range f.Messages {
		for _, fl := range m.Fields {
			if fl.Kind == ir.KEnum {
				fl.Kind, fl.Type = "int32", ""
			}
		}
	}
	f.Enums = nil
}

func firstDiff(a, b string) string {
	la, lb := strings.Split(a, "\n"), strings.Split(b, "\n")
	for i := 0; i < len(la) && i < len(lb); i++ {
		if la[i] != lb[i] {
			return fmt.Sprintf("line %d: %q vs %q", i+1, strings.TrimSpace(la[i]), strings.TrimSpace(lb[i]))
		}
	}
	return fmt.Sprintf("%d vs %d lines", len(la), len(lb))
}
