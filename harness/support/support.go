// Package support holds the declarations a user of the plugin has to supply:
// Terraform types for time and duration, validators, plan modifiers and the
// back end of the custom-type hooks. The types here are lossless on purpose
// (RFC3339Nano strings, nanosecond integers as strings), so that an exact
// round trip is satisfiable by a correct generator.
package support

import (
	"context"
	"fmt"
	"reflect"
	"strconv"
	"sync"
	"time"

	"github.com/hashicorp/terraform-plugin-framework/attr"
	"github.com/hashicorp/terraform-plugin-framework/diag"
	"github.com/hashicorp/terraform-plugin-framework/tfsdk"
	"github.com/hashicorp/terraform-plugin-framework/types"
	"github.com/hashicorp/terraform-plugin-go/tftypes"
)

// ------------------------------------------------------------------ time

type TimeType struct {
	Tag string // "" for the zero literal TimeType{}, "ctor" when built by UseTime()
}

func UseTime() TimeType { return TimeType{Tag: "ctor"} }

func (t TimeType) ApplyTerraform5AttributePathStep(step tftypes.AttributePathStep) (interface{}, error) {
	return nil, fmt.Errorf("cannot apply AttributePathStep %T to %s", step, t.String())
}
func (t TimeType) String() string { return "support.TimeType(" + t.Tag + ")" }
func (t TimeType) Equal(o attr.Type) bool {
	other, ok := o.(TimeType)
	return ok && other == t
}
func (t TimeType) TerraformType(context.Context) tftypes.Type { return tftypes.String }
func (t TimeType) ValueFromTerraform(_ context.Context, in tftypes.Value) (attr.Value, error) {
	if !in.IsKnown() {
		return TimeValue{Unknown: true, Tag: t.Tag}, nil
	}
	if in.IsNull() {
		return TimeValue{Null: true, Tag: t.Tag}, nil
	}
	var raw string
	if err := in.As(&raw); err != nil {
		return nil, err
	}
	v, err := ParseTime(raw)
	if err != nil {
		return nil, err
	}
	return TimeValue{Value: v, Tag: t.Tag}, nil
}

const timeLayout = "2006-01-02T15:04:05.999999999Z07:00"

// FormatTime renders instant, nanoseconds and zone offset (whole minutes) exactly.
func FormatTime(t time.Time) string {
	_, off := t.Zone()
	return strconv.FormatInt(t.Unix(), 10) + "." + strconv.Itoa(t.Nanosecond()) + "@" + strconv.Itoa(off)
}

func ParseTime(s string) (time.Time, error) {
	var sec int64
	var ns, off int
	if _, err := fmt.Sscanf(s, "%d.%d@%d", &sec, &ns, &off); err != nil {
		return time.Time{}, fmt.Errorf("bad time %q: %v", s, err)
	}
	loc := time.UTC
	if off != 0 {
		loc = time.FixedZone("", off)
	}
	return time.Unix(sec, int64(ns)).In(loc), nil
}

type TimeValue struct {
	Unknown bool
	Null    bool
	Value   time.Time
	Tag     string
}

func (t TimeValue) Type(context.Context) attr.Type { return TimeType{Tag: t.Tag} }
func (t TimeValue) ToTerraformValue(context.Context) (tftypes.Value, error) {
	if t.Null {
		return tftypes.NewValue(tftypes.String, nil), nil
	}
	if t.Unknown {
		return tftypes.NewValue(tftypes.String, tftypes.UnknownValue), nil
	}
	return tftypes.NewValue(tftypes.String, FormatTime(t.Value)), nil
}
func (t TimeValue) Equal(other attr.Value) bool {
	o, ok := other.(TimeValue)
	if !ok || t.Unknown != o.Unknown || t.Null != o.Null || t.Tag != o.Tag {
		return false
	}
	if t.Null || t.Unknown {
		return true
	}
	return FormatTime(t.Value) == FormatTime(o.Value)
}
func (t TimeValue) IsNull() bool    { return t.Null }
func (t TimeValue) IsUnknown() bool { return t.Unknown }
func (t TimeValue) String() string {
	if t.Unknown {
		return attr.UnknownValueString
	}
	if t.Null {
		return attr.NullValueString
	}
	return FormatTime(t.Value)
}

// ------------------------------------------------------------------ duration

type DurationType struct{ Tag string }

func UseDuration() DurationType { return DurationType{Tag: "ctor"} }

func (t DurationType) ApplyTerraform5AttributePathStep(step tftypes.AttributePathStep) (interface{}, error) {
	return nil, fmt.Errorf("cannot apply AttributePathStep %T to %s", step, t.String())
}
func (t DurationType) String() string { return "support.DurationType(" + t.Tag + ")" }
func (t DurationType) Equal(o attr.Type) bool {
	other, ok := o.(DurationType)
	return ok && other == t
}
func (t DurationType) TerraformType(context.Context) tftypes.Type { return tftypes.String }
func (t DurationType) ValueFromTerraform(_ context.Context, in tftypes.Value) (attr.Value, error) {
	if !in.IsKnown() {
		return DurationValue{Unknown: true, Tag: t.Tag}, nil
	}
	if in.IsNull() {
		return DurationValue{Null: true, Tag: t.Tag}, nil
	}
	var raw string
	if err := in.As(&raw); err != nil {
		return nil, err
	}
	n, err := strconv.ParseInt(raw, 10, 64)
	if err != nil {
		return nil, err
	}
	return DurationValue{Value: time.Duration(n), Tag: t.Tag}, nil
}

type DurationValue struct {
	Unknown bool
	Null    bool
	Value   time.Duration
	Tag     string
}

func (t DurationValue) Type(context.Context) attr.Type { return DurationType{Tag: t.Tag} }
func (t DurationValue) ToTerraformValue(context.Context) (tftypes.Value, error) {
	if t.Null {
		return tftypes.NewValue(tftypes.String, nil), nil
	}
	if t.Unknown {
		return tftypes.NewValue(tftypes.String, tftypes.UnknownValue), nil
	}
	return tftypes.NewValue(tftypes.String, strconv.FormatInt(int64(t.Value), 10)), nil
}
func (t DurationValue) Equal(other attr.Value) bool {
	o, ok := other.(DurationValue)
	if !ok || t.Unknown != o.Unknown || t.Null != o.Null || t.Tag != o.Tag {
		return false
	}
	if t.Null || t.Unknown {
		return true
	}
	return t.Value == o.Value
}
func (t DurationValue) IsNull() bool    { return t.Null }
func (t DurationValue) IsUnknown() bool { return t.Unknown }
func (t DurationValue) String() string {
	if t.Unknown {
		return attr.UnknownValueString
	}
	if t.Null {
		return attr.NullValueString
	}
	return strconv.FormatInt(int64(t.Value), 10)
}

// ------------------------------------------------------------------ validators / plan modifiers

type Validator struct {
	ID  int
	Arg string // VS / VF: the call as written in the configuration, e.g. VS("a.b")
}

func V(id int) tfsdk.AttributeValidator { return Validator{ID: id} }

// VS and VF take arguments that contain dots, quotes and slashes (as in hostvalidator.Suffix("example.com") or
// float64validator.AtLeast(0.5)): a qualified expression must be split at the qualifier, not at the last dot.
func VS(s string) tfsdk.AttributeValidator { return Validator{ID: -1, Arg: fmt.Sprintf("VS(%q)", s)} }
func VF(f float64) tfsdk.AttributeValidator {
	return Validator{ID: -2, Arg: "VF(" + strconv.FormatFloat(f, 'g', -1, 64) + ")"}
}

func (v Validator) Description(context.Context) string { return fmt.Sprintf("support.V(%d)", v.ID) }
func (v Validator) MarkdownDescription(context.Context) string {
	return fmt.Sprintf("support.V(%d)", v.ID)
}
func (v Validator) Validate(context.Context, tfsdk.ValidateAttributeRequest, *tfsdk.ValidateAttributeResponse) {
}

type PlanModifier struct {
	ID  int
	Arg string
}

func PM(id int) tfsdk.AttributePlanModifier { return PlanModifier{ID: id} }
func PMS(s string) tfsdk.AttributePlanModifier {
	return PlanModifier{ID: -1, Arg: fmt.Sprintf("PMS(%q)", s)}
}

func (v PlanModifier) Description(context.Context) string { return fmt.Sprintf("support.PM(%d)", v.ID) }
func (v PlanModifier) MarkdownDescription(context.Context) string {
	return fmt.Sprintf("support.PM(%d)", v.ID)
}
func (v PlanModifier) Modify(context.Context, tfsdk.ModifyAttributePlanRequest, *tfsdk.ModifyAttributePlanResponse) {
}

// ------------------------------------------------------------------ custom-type hooks

// CustomType is the attribute type every custom hook reports; the suffix makes
// schema entries of different custom types distinguishable.
type CustomType struct{ Suffix string }

func (t CustomType) ApplyTerraform5AttributePathStep(step tftypes.AttributePathStep) (interface{}, error) {
	return nil, fmt.Errorf("cannot apply AttributePathStep %T to %s", step, t.String())
}
func (t CustomType) String() string { return "support.CustomType(" + t.Suffix + ")" }
func (t CustomType) Equal(o attr.Type) bool {
	other, ok := o.(CustomType)
	return ok && other == t
}
func (t CustomType) TerraformType(context.Context) tftypes.Type { return tftypes.String }
func (t CustomType) ValueFromTerraform(_ context.Context, in tftypes.Value) (attr.Value, error) {
	if !in.IsKnown() {
		return CustomValue{Unknown: true, Suffix: t.Suffix}, nil
	}
	if in.IsNull() {
		return CustomValue{Null: true, Suffix: t.Suffix}, nil
	}
	var raw string
	if err := in.As(&raw); err != nil {
		return nil, err
	}
	return CustomValue{Suffix: t.Suffix, Payload: raw}, nil
}

// CustomValue is the attr.Value of custom attributes. Serial is an unforgeable
// sentinel handed out by the CopyTo hook.
type CustomValue struct {
	Unknown bool
	Null    bool
	Suffix  string
	Payload string
	Serial  int64
}

func (v CustomValue) Type(context.Context) attr.Type { return CustomType{Suffix: v.Suffix} }
func (v CustomValue) ToTerraformValue(context.Context) (tftypes.Value, error) {
	if v.Null {
		return tftypes.NewValue(tftypes.String, nil), nil
	}
	if v.Unknown {
		return tftypes.NewValue(tftypes.String, tftypes.UnknownValue), nil
	}
	return tftypes.NewValue(tftypes.String, v.Payload), nil
}
func (v CustomValue) Equal(o attr.Value) bool {
	other, ok := o.(CustomValue)
	if !ok || v.Null != other.Null || v.Unknown != other.Unknown || v.Suffix != other.Suffix {
		return false
	}
	if v.Null || v.Unknown {
		return true
	}
	return v.Payload == other.Payload
}
func (v CustomValue) IsNull() bool    { return v.Null }
func (v CustomValue) IsUnknown() bool { return v.Unknown }
func (v CustomValue) String() string  { return "custom(" + v.Suffix + ":" + v.Payload + ")" }

// Call is one logged hook invocation.
type Call struct {
	Hook   string // GenSchema / CopyFrom / CopyTo
	Suffix string
	// GenSchema
	AttrIn tfsdk.Attribute
	// CopyFrom
	Value  attr.Value  // the attr.Value passed in (nil interface if the attribute was missing)
	Target interface{} // pointer to the field
	// CopyTo
	Field   interface{} // field value
	Type    attr.Type
	Current attr.Value
	Result  attr.Value
}

var (
	mu     sync.Mutex
	calls  []Call
	serial int64
	// FromPayload is what CopyFrom hooks store into the field: a function set by
	// the run-time harness that writes a recognisable value through the pointer.
	Store func(target interface{}, v attr.Value)
	// Render renders a field value as the payload string of CopyTo results.
	Render func(field interface{}) string
)

func ResetCalls() {
	mu.Lock()
	calls = nil
	mu.Unlock()
}

func Calls() []Call {
	mu.Lock()
	defer mu.Unlock()
	out := make([]Call, len(calls))
	copy(out, calls)
	return out
}

func logCall(c Call) {
	mu.Lock()
	calls = append(calls, c)
	mu.Unlock()
}

// HookGenSchema is the back end of GenSchema<S>: it returns a sentinel attribute
// whose type names the suffix and whose flags/description echo the input.
func HookGenSchema(suffix string, _ context.Context, a tfsdk.Attribute) tfsdk.Attribute {
	logCall(Call{Hook: "GenSchema", Suffix: suffix, AttrIn: a})
	return tfsdk.Attribute{
		Type:          CustomType{Suffix: suffix},
		Description:   "hook:" + suffix + ":" + a.Description,
		Required:      a.Required,
		Optional:      a.Optional,
		Computed:      a.Computed,
		Sensitive:     a.Sensitive,
		Validators:    a.Validators,
		PlanModifiers: a.PlanModifiers,
	}
}

// HookCopyFrom is the back end of CopyFrom<S>.
func HookCopyFrom(suffix string, _ diag.Diagnostics, v attr.Value, target interface{}) {
	logCall(Call{Hook: "CopyFrom", Suffix: suffix, Value: v, Target: target})
	if Store != nil {
		Store(target, v)
	}
}

// NilResults makes the CopyTo hooks return a nil attr.Value (a legal, if unusual, thing for user code to do):
// the generated code has to store exactly what the hook returns.
var NilResults bool

// HookCopyTo is the back end of CopyTo<S>.
func HookCopyTo(suffix string, _ diag.Diagnostics, field interface{}, t attr.Type, cur attr.Value) attr.Value {
	if NilResults {
		logCall(Call{Hook: "CopyTo", Suffix: suffix, Field: field, Type: t, Current: cur, Result: nil})
		return nil
	}
	mu.Lock()
	serial++
	s := serial
	mu.Unlock()
	payload := ""
	if Render != nil {
		payload = Render(field)
	} else {
		payload = fmt.Sprintf("%v", reflect.Indirect(reflect.ValueOf(field)))
	}
	res := CustomValue{Suffix: suffix, Payload: payload, Serial: s}
	logCall(Call{Hook: "CopyTo", Suffix: suffix, Field: field, Type: t, Current: cur, Result: res})
	return res
}

// Injected attribute types.
var (
	_ = types.StringType
)
