package gen

import (
	"fmt"
	"os"
	"testing"

	"pgregory.net/rapid"
	"verif/ir"
)

// TestStats prints how often some shapes occur (VERIF_STATS=1).
func TestStats(t *testing.T) {
	if os.Getenv("VERIF_STATS") == "" {
		t.Skip()
	}
	n, twoNE, oneNE, files, dep := 0, 0, 0, 0, 0
	rapid.Check(t, func(t *rapid.T) {
		f := File(t, DefaultOpts())
		files++
		any2, any1 := false, false
		for _, m := range f.Messages {
			n++
			c := 0
			for _, fl := range m.Fields {
				if fl.Embed && fl.IsNullable() {
					c++
				}
			}
			if c >= 2 {
				any2 = true
			}
			if c >= 1 {
				any1 = true
			}
		}
		if any2 {
			twoNE++
		}
		if any1 {
			oneNE++
		}
		_ = ir.Single
		_ = dep
	})
	fmt.Printf("files=%d messages=%d files_with_nullable_embed=%d files_with_two_nullable_embeds_in_one_message=%d\n", files, n, oneNE, twoNE)
}
