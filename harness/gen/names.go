// Package gen holds the rapid generators for descriptors in D and configurations in K.
package gen

import (
	"strings"

	"github.com/gogo/protobuf/protoc-gen-gogo/generator"
	"github.com/stoewer/go-strcase"
	"pgregory.net/rapid"
)

var upperPool = []string{"Str", "ID", "X", "AWSRoleARNs", "Int32", "Name", "Spec", "Meta", "Value", "Kind", "URL", "TTL",
	"Opts", "V2", "Data", "Labels", "A", "MaxAge", "HTTPPort", "Nested", "List", "Map", "Mode", "Expires", "B", "Cfg",
	"Count", "Provider"}
var lowerPool = []string{"str", "id", "x", "lower_snake", "with2_digits3", "name", "max_age", "b", "foo", "bar",
	"labels", "http_port", "value", "kind", "a", "created_at", "ttl", "data", "type", "range", "default", "key",
	// names Terraform reserves at the top level of a resource: ordinary attribute names everywhere else, and nothing
	// in the properties singles them out
	"count", "provider", "lifecycle", "depends_on", "for_each", "connection"}

var upperSeg = rapid.Custom(func(t *rapid.T) string {
	return rapid.StringMatching(`[A-Z]{1,3}[a-z]{0,4}[0-9]{0,2}`).Draw(t, "useg")
})
var lowerSeg = rapid.Custom(func(t *rapid.T) string {
	return rapid.StringMatching(`[a-z]{1,5}[0-9]{0,2}`).Draw(t, "lseg")
})

// FieldName draws a name in one of the two styles of D.
func FieldName(t *rapid.T, label string) string {
	switch rapid.IntRange(0, 3).Draw(t, label+".style") {
	case 0:
		return rapid.SampledFrom(upperPool).Draw(t, label)
	case 1:
		return rapid.SampledFrom(lowerPool).Draw(t, label)
	case 2:
		n := rapid.IntRange(1, 3).Draw(t, label+".n")
		var b strings.Builder
		for i := 0; i < n; i++ {
			b.WriteString(upperSeg.Draw(t, label))
		}
		return b.String()
	default:
		n := rapid.IntRange(1, 3).Draw(t, label+".n")
		parts := make([]string, n)
		for i := range parts {
			parts[i] = lowerSeg.Draw(t, label)
		}
		return strings.Join(parts, "_")
	}
}

// GoName is the Go identifier protoc-gen-gogo gives a proto field/oneof name.
func GoName(proto string) string { return generator.CamelCase(proto) }

func Snake(proto string) string { return strcase.SnakeCase(proto) }

var goReserved = map[string]bool{
	"Reset": true, "String": true, "ProtoMessage": true, "Descriptor": true, "Size": true, "Marshal": true,
	"Unmarshal": true, "MarshalTo": true, "MarshalToSizedBuffer": true, "Equal": true, "Compare": true, "GoString": true,
	"ProtoSize": true, "Validate": true, "Clone": true, "Merge": true,
}

func reservedGo(goName string) bool {
	return goReserved[goName] || strings.HasPrefix(goName, "XXX") || strings.HasPrefix(goName, "Get")
}

// nameSet keeps the names already used in one flattened message.
type nameSet struct {
	goNames map[string]bool
	attrs   map[string]bool
}

func newNameSet() *nameSet { return &nameSet{goNames: map[string]bool{}, attrs: map[string]bool{}} }

func (s *nameSet) clone() *nameSet {
	c := newNameSet()
	for k := range s.goNames {
		c.goNames[k] = true
	}
	for k := range s.attrs {
		c.attrs[k] = true
	}
	return c
}

func (s *nameSet) okField(name string) bool {
	g := GoName(name)
	if reservedGo(g) || s.goNames[g] || s.attrs[Snake(name)] || s.goNames[strings.ToLower(g)] {
		return false
	}
	return true
}

func (s *nameSet) addField(name string) {
	s.goNames[GoName(name)] = true
	s.attrs[Snake(name)] = true
}

// fresh draws a field name not colliding with the set; collisions are repaired by
// construction (a distinguishing suffix), not by rejection.
func (s *nameSet) fresh(t *rapid.T, label string) string {
	n := FieldName(t, label)
	if s.okField(n) {
		s.addField(n)
		return n
	}
	lower := n[0] >= 'a' && n[0] <= 'z'
	if reservedGo(GoName(n)) {
		// reserved by prefix (Get…, XXX…): no suffix can repair it, so the name gets another head
		if lower {
			n = "f_" + n
		} else {
			n = "F" + n
		}
		if s.okField(n) {
			s.addField(n)
			return n
		}
	}
	for i := 0; ; i++ {
		var c string
		if lower {
			c = n + "_" + string(rune('a'+i%26)) + strings.Repeat("z", i/26)
		} else {
			c = n + string(rune('A'+i%26)) + strings.Repeat("z", i/26)
		}
		if s.okField(c) {
			s.addField(c)
			return c
		}
	}
}
