package gen

import (
	"fmt"
	"strings"

	"pgregory.net/rapid"

	"verif/ir"
)

// Opts steers the descriptor generator. The Allow* switches exist for shapes
// that are in D but covered by a known finding (DESIGN §6): while a finding's
// probe still fails the shape is excluded by construction and counted.
type Opts struct {
	MaxMessages int
	MaxFields   int

	AllowMapBytes             bool // F1
	AllowEmptyInCollections   bool // F2 (repeated / map of empty message)
	AllowNullableEmbed        bool // F3 (scalar children)
	AllowNullableEmbedComplex bool // F4 (non-scalar children)
	AllowOneofInEmbedded      bool
	AllowDurationCastInOneof  bool // F10

	// Biases
	OneofHeavy   bool // C07
	ScalarDense  bool // C19
	MultiPath    bool // C11: messages occur at several paths
	Comments     bool // C10
	QualHeavy    bool // C13: cast types, enums, oneofs, embedded, maps of messages
	CustomFields bool // C17
	NoCustom     bool
	NoEmbedHeavy bool // never add the block of several embedded messages (embedHeavy)
	NoTemporal   bool // no time/duration anywhere (for the C18 "missing time_type" probe base)
	NoEmpty      bool

	Excluded *int // counts draws redirected because of a disallowed shape
}

func (o *Opts) excluded() {
	if o.Excluded != nil {
		*o.Excluded++
	}
}

func DefaultOpts() Opts {
	return Opts{MaxMessages: 7, MaxFields: 9, AllowMapBytes: true, AllowEmptyInCollections: true,
		AllowNullableEmbed: true, AllowNullableEmbedComplex: true, AllowOneofInEmbedded: true, AllowDurationCastInOneof: true}
}

// Cast types declared in every struct package (local.go).
var CastTypes = map[string]string{
	"Duration": "int64", // the candidate for duration_custom_type
	"MyInt32":  "int32", "MyInt64": "int64", "MyUint32": "uint32", "MyUint64": "uint64",
	"MyFloat32": "float32", "MyFloat64": "float64", "MyBool": "bool", "MyString": "string", "MyBytes": "[]byte",
	// names that merely contain the name of the duration custom type: ordinary numeric casts
	"SecondsDuration": "float64", "DurationMs": "int32",
}

// castFor maps a scalar kind to the cast types usable on it.
func castFor(kind string) []string {
	switch kind {
	case "int32", "sint32", "sfixed32":
		return []string{"MyInt32", "DurationMs"}
	case "int64", "sint64", "sfixed64":
		return []string{"MyInt64", "Duration", "time.Duration", "int"} // "int": a predeclared Go type as cast type
	case "uint32", "fixed32":
		return []string{"MyUint32"}
	case "uint64", "fixed64":
		return []string{"MyUint64", "uint"}
	case "float":
		return []string{"MyFloat32"}
	case "double":
		return []string{"MyFloat64", "SecondsDuration"}
	case "bool":
		return []string{"MyBool"}
	case "string":
		return []string{"MyString"}
	case "bytes":
		return []string{"MyBytes"}
	}
	return nil
}

// Custom types declared in every struct package.
var CustomTypes = map[string]string{
	"BoolCustom": "bool", "StrCustom": "string", "IntCustom": "int64",
}

var msgPool = []string{"Test", "Nested", "Spec", "Meta", "OtherNested", "Branch1", "EmbeddedField", "RoleV5", "AppV3",
	"Options", "Metadata", "Status", "Rule", "Item", "Leaf", "Node2", "ACL", "HTTPConfig"}

var commentLines = []string{"Str string field", "  indented line", "contains \"quotes\" and `backticks`", "back\\slash \\n literal",
	"tab\there", "non-ASCII: żółć ☃", "", "trailing spaces   ", "Nested repeated nested messages", "x", "a: b - c # d", "{{ template }} %v %s",
	"Import path of the package providing the artifact", "package main", "func F() { return } // import \"fmt\"", "type T struct{}"}

func comment(t *rapid.T, label string) string {
	n := rapid.IntRange(0, 4).Draw(t, label+".lines")
	if n == 0 {
		return ""
	}
	eol := rapid.SampledFrom([]string{"\n", "\n", "\r\n"}).Draw(t, label+".eol")
	s := ""
	for i := 0; i < n; i++ {
		var l string
		if rapid.IntRange(0, 3).Draw(t, label+".src") == 0 {
			l = rapid.StringMatching(`[ ]{0,2}[A-Za-z0-9 ,.'"\x60\\-]{0,20}[ ]{0,2}`).Draw(t, label+".txt")
		} else {
			l = rapid.SampledFrom(commentLines).Draw(t, label+".line")
		}
		// protoc strips "//" and keeps the rest of the line including the leading space
		s += " " + l + eol
	}
	return s
}

func comments(t *rapid.T, label string, on bool) ir.Comments {
	var c ir.Comments
	if !on {
		if rapid.IntRange(0, 2).Draw(t, label+".has") == 0 {
			c.Leading = " " + rapid.SampledFrom(commentLines).Draw(t, label+".one") + "\n"
		}
		return c
	}
	c.Leading = comment(t, label+".lead")
	if rapid.IntRange(0, 3).Draw(t, label+".tr") == 0 {
		c.Trailing = " trailing comment that must be ignored\n"
	}
	if rapid.IntRange(0, 4).Draw(t, label+".det") == 0 {
		c.Detached = []string{" detached comment that must be ignored\n"}
	}
	return c
}

type fileGen struct {
	t     *rapid.T
	o     Opts
	f     *ir.File
	depth map[string]int      // message -> depth of its reference graph
	flat  map[string]*nameSet // message -> names in its flattened view
	// hasOneof / hasEmbed per message (transitively through embeds)
	hasOneof  map[string]bool
	complex   map[string]bool // has a non-scalar field (flattened)
	hasEmbed  map[string]bool
	hasCustom map[string]bool
	// pairs remembers (field name, message type) of message-typed fields, so that with MultiPath
	// several messages hold the same nested type under the same field name
	pairs [][2]string
	// oneofs lists the oneof names used so far in the file
	oneofs []string
	// msgOneofs: message -> oneof names visible in its flattened view; embeddedOneofs: those of the
	// messages embedded so far into the message being generated
	msgOneofs      map[string][]string
	embeddedOneofs []string
	simple         bool // the message being generated holds only singular scalar-like fields
}

// File draws a proto file in D.
func File(t *rapid.T, o Opts) *ir.File {
	if o.MaxMessages == 0 {
		o.MaxMessages = 7
	}
	if o.MaxFields == 0 {
		o.MaxFields = 9
	}
	g := &fileGen{t: t, o: o, depth: map[string]int{}, flat: map[string]*nameSet{}, hasOneof: map[string]bool{}, complex: map[string]bool{}, hasEmbed: map[string]bool{}, hasCustom: map[string]bool{}, msgOneofs: map[string][]string{}}
	f := &ir.File{
		Name:        rapid.SampledFrom([]string{"x.proto", "types.proto", "api_v1.proto", "a2.proto"}).Draw(t, "file"),
		Package:     "v0",
		Getters:     rapid.Bool().Draw(t, "getters"),
		CastTypes:   CastTypes,
		CustomTypes: CustomTypes,
	}
	g.f = f
	// enums
	nEnum := rapid.IntRange(0, 2).Draw(t, "nenum")
	if o.QualHeavy && nEnum == 0 {
		nEnum = 1
	}
	for i := 0; i < nEnum; i++ {
		name := []string{"Mode", "Level", "Color"}[i]
		e := &ir.Enum{Name: name}
		nv := rapid.IntRange(1, 4).Draw(t, "nval")
		num := int32(0)
		for j := 0; j < nv; j++ {
			e.Values = append(e.Values, ir.EnumValue{Name: fmt.Sprintf("%s_%c", upper(name), 'A'+j), Number: num})
			num += int32(rapid.IntRange(1, 3).Draw(t, "step"))
		}
		f.Enums = append(f.Enums, e)
	}
	// messages, leaves first
	// rapid's integers are biased towards small values: message counts are sampled from a flat table instead
	sizes := []int{1, 2, 3, 3, 4, 4, 5, 5, 6, 7}
	for n := 8; n <= o.MaxMessages; n++ { // the thorough tier allows larger files
		sizes = append(sizes, n)
	}
	nMsg := rapid.SampledFrom(sizes).Draw(t, "nmsg")
	if nMsg > o.MaxMessages {
		nMsg = o.MaxMessages
	}
	used := map[string]bool{"Mode": true, "Level": true, "Color": true}
	for k := range CastTypes {
		used[k] = true
	}
	for k := range CustomTypes {
		used[k] = true
	}
	for i := 0; i < nMsg; i++ {
		name := rapid.SampledFrom(msgPool).Draw(t, "msgname")
		for used[name] {
			name = name + "X"
		}
		used[name] = true
		m := g.message(name, i == nMsg-1)
		f.Messages = append(f.Messages, m)
	}
	pHeavy := 2
	if o.OneofHeavy {
		pHeavy = 1 // with OneofHeavy the embedded messages mostly bring oneofs of their own (C07, C15)
	}
	if o.AllowNullableEmbed && o.AllowNullableEmbedComplex && !o.NoEmbedHeavy && rapid.IntRange(0, pHeavy).Draw(t, "embedheavy") == 0 {
		g.embedHeavy(used)
	}
	// Declaration order in the file is independent of the reference order.
	if rapid.Bool().Draw(t, "reverse") {
		for i, j := 0, len(f.Messages)-1; i < j; i, j = i+1, j-1 {
			f.Messages[i], f.Messages[j] = f.Messages[j], f.Messages[i]
		}
	}
	return f
}

// embedHeavy gives one or two messages of the file several embedded messages at once (two or three, most of them
// nullable, each with scalar, list, map and message children under names no other field uses). The ordinary field loop
// embeds often but seldom twice in one message, and code that handles "the" embedded parent of a message is only
// exercised when there are two that differ in nil-ness. A host is never itself embedded somewhere (a nullable embedded
// message that embeds is outside D).
func (g *fileGen) embedHeavy(used map[string]bool) {
	t, f := g.t, g.f
	embeddedSomewhere := map[string]bool{}
	for _, m := range f.Messages {
		for _, fl := range m.Fields {
			if fl.Embed {
				embeddedSomewhere[fl.Type] = true
			}
		}
	}
	var hosts []*ir.Message
	for _, m := range f.Messages {
		if len(m.Fields) > 0 && len(m.Fields) < 12 && !embeddedSomewhere[m.Name] && g.flat[m.Name] != nil {
			hosts = append(hosts, m)
		}
	}
	if len(hosts) == 0 {
		return
	}
	var leaves []string // messages without message-typed or custom fields: referencing them cannot close a cycle
	for _, m := range f.Messages {
		leaf := !g.hasCustom[m.Name] // messages without fields included (finding F13: held by value below a nullable embedded parent)
		for _, fl := range m.Fields {
			if fl.Kind == ir.KMessage {
				leaf = false
			}
		}
		if leaf {
			leaves = append(leaves, m.Name)
		}
	}
	nHosts := rapid.IntRange(1, 2).Draw(t, "eh_hosts")
	done := map[string]bool{}
	var chosen []*ir.Message
	for hi := 0; hi < nHosts; hi++ {
		host := rapid.SampledFrom(hosts).Draw(t, "eh_host")
		if !done[host.Name] {
			done[host.Name] = true
			chosen = append(chosen, host)
		}
	}
	// a host is not a leaf any more: the new messages must not refer to it (two hosts would close a cycle)
	var keep []string
	for _, l := range leaves {
		if !done[l] {
			keep = append(keep, l)
		}
	}
	leaves = keep
	for hi, host := range chosen {
		tag := fmt.Sprintf("Eh%c", 'P'+hi) // no digits: gogo capitalises a letter that follows a digit, the plugin does not
		num := int32(0)
		for _, fl := range host.Fields {
			if fl.Number > num {
				num = fl.Number
			}
		}
		n := rapid.IntRange(2, 3).Draw(t, "eh_n")
		hostHasActive := g.flat[host.Name].attrs["active"] || g.flat[host.Name].goNames["Active"] || embeddedSomewhere[host.Name]
		for _, hf := range host.Fields {
			if hf.Embed || Snake(hf.Name) == "active" {
				hostHasActive = true // keep it simple: hosts with embedded fields of their own get no empty one
			}
		}
		for i := 0; i < n; i++ {
			name := fmt.Sprintf("Emb%s%c", tag, 'A'+i)
			if used[name] || host.Name == name {
				continue
			}
			used[name] = true
			px := fmt.Sprintf("%s%c", tag, 'a'+i) // EhPa...
			lower := rapid.Bool().Draw(t, "eh_lower")
			nm := func(base string) string {
				if lower {
					return strings.ToLower(px) + "_" + strings.ToLower(base)
				}
				return px + base
			}
			e := &ir.Message{Name: name}
			add := func(fl *ir.Field) {
				fl.Number = int32(len(e.Fields) + 1)
				e.Fields = append(e.Fields, fl)
			}
			// now and then one embedded message of the block has no fields at all: its placeholder attribute `active`
			// is flattened into the host (at most one per host, and only if the name is free there)
			emptyEmb := !hostHasActive && rapid.IntRange(0, 5).Draw(t, "eh_empty") == 0
			if emptyEmb {
				hostHasActive = true
			} else {
				add(&ir.Field{Name: nm("Str"), Kind: "string"})
			}
			if !emptyEmb && rapid.Bool().Draw(t, "eh_int") {
				add(&ir.Field{Name: nm("Num"), Kind: rapid.SampledFrom([]string{"int64", "uint32", "double", "bool", "bytes", "float", "sint32", "bytes"}).Draw(t, "eh_kind")})
			}
			if !emptyEmb && rapid.IntRange(0, 2).Draw(t, "eh_bin") == 0 {
				add(&ir.Field{Name: nm("Bin"), Kind: "bytes"})
			}
			if !emptyEmb && len(leaves) > 0 && rapid.IntRange(0, 2).Draw(t, "eh_msgs") == 0 {
				// a list or map of messages (the leaves include messages without fields)
				ref := rapid.SampledFrom(leaves).Draw(t, "eh_refs")
				if ref != host.Name && ref != name {
					fl := &ir.Field{Name: nm("Msgs"), Kind: ir.KMessage, Type: ref, Card: rapid.SampledFrom([]string{ir.Repeated, ir.Map}).Draw(t, "eh_msgscard")}
					if rapid.IntRange(0, 2).Draw(t, "eh_msgsnull") == 0 {
						fl.Nullable = boolp(false)
					}
					add(fl)
				}
			}
			if !emptyEmb && rapid.IntRange(0, 2).Draw(t, "eh_list") != 0 {
				add(&ir.Field{Name: nm("List"), Kind: "string", Card: ir.Repeated})
			}
			if !emptyEmb && rapid.IntRange(0, 2).Draw(t, "eh_map") != 0 {
				add(&ir.Field{Name: nm("Map"), Kind: rapid.SampledFrom([]string{"string", "int32", "bytes"}).Draw(t, "eh_mapkind"), Card: ir.Map})
			}
			if !emptyEmb && len(leaves) > 0 && rapid.Bool().Draw(t, "eh_msg") {
				ref := rapid.SampledFrom(leaves).Draw(t, "eh_ref")
				if ref != host.Name && ref != name {
					fl := &ir.Field{Name: nm("Msg"), Kind: ir.KMessage, Type: ref}
					if rapid.Bool().Draw(t, "eh_msgnull") {
						fl.Nullable = boolp(false)
					}
					add(fl)
				}
			}
			f.Messages = append(f.Messages, e)
			num++
			ef := &ir.Field{Name: name, Number: num, Kind: ir.KMessage, Type: name, Embed: true}
			nsel := rapid.IntRange(0, 3).Draw(t, "eh_nullable")
			if g.o.OneofHeavy && nsel >= 2 && rapid.Bool().Draw(t, "eh_byvalue") {
				nsel = 0
			}
			switch nsel {
			case 0:
				ef.Nullable = boolp(false)
				if !emptyEmb && g.o.AllowOneofInEmbedded && (g.o.OneofHeavy || rapid.Bool().Draw(t, "eh_oneof")) {
					// a oneof of its own (only in a by-value embedded message: a nullable one with a oneof is outside D):
					// two embedded messages that each bring a oneof are flattened into one host
					on := "Choice" + px
					if lower {
						on = "choice_" + strings.ToLower(px)
					}
					// half of the time the name is the tail of one of the host's own oneof names (`ResourceKind` ->
					// `Kind`, `my_name` -> `name`): names of different groups that contain each other
					if own := g.msgOneofs[host.Name]; len(own) > 0 && rapid.Bool().Draw(t, "eh_oneoftail") {
						base := rapid.SampledFrom(own).Draw(t, "eh_oneofbase")
						tail := ""
						if i := strings.LastIndex(base, "_"); i > 0 && i+1 < len(base) {
							tail = base[i+1:]
						} else {
							for i := len(base) - 1; i > 0; i-- {
								if base[i] >= 'A' && base[i] <= 'Z' {
									tail = base[i:]
									break
								}
							}
						}
						if len(tail) >= 2 && tail != base && names0(g, host.Name, tail) {
							on = tail
							g.flat[host.Name].goNames[GoName(tail)] = true
						}
					}
					add(&ir.Field{Name: nm("OneA"), Kind: "string", Oneof: on})
					add(&ir.Field{Name: nm("OneB"), Kind: "int64", Oneof: on})
				}
			case 1:
				ef.Nullable = boolp(true)
			}
			host.Fields = append(host.Fields, ef)
		}
		// now and then the host itself is embedded by value into a new message: its nullable embedded parents
		// are then one embedding level further down
		// (the embedded Go field is named after the type: a host with a field of its own name cannot be embedded)
		selfNamed := g.flat[host.Name].goNames[GoName(host.Name)] || g.flat[host.Name].goNames[host.Name]
		for _, hf := range host.Fields {
			if GoName(hf.Name) == GoName(host.Name) {
				selfNamed = true
			}
		}
		if wn := "Wrap" + tag; !selfNamed && !used[wn] && rapid.IntRange(0, 2).Draw(t, "eh_wrap") == 0 {
			used[wn] = true
			w := &ir.Message{Name: wn}
			w.Fields = append(w.Fields, &ir.Field{Name: "Wr" + tag + "Str", Number: 1, Kind: "string"})
			w.Fields = append(w.Fields, &ir.Field{Name: host.Name, Number: 2, Kind: ir.KMessage, Type: host.Name, Embed: true, Nullable: boolp(false)})
			if rapid.Bool().Draw(t, "eh_wrapnum") {
				w.Fields = append(w.Fields, &ir.Field{Name: "wr" + strings.ToLower(tag) + "_num", Number: 3, Kind: "int32"})
			}
			f.Messages = append(f.Messages, w)
		}
	}
}

// names0 reports whether name is free as a Go identifier and attribute in the flattened name set of message m.
func names0(g *fileGen, m, name string) bool {
	ns := g.flat[m]
	return ns != nil && ns.okField(name)
}

func upper(s string) string {
	b := []byte(s)
	for i, c := range b {
		if c >= 'a' && c <= 'z' {
			b[i] = c - 32
		}
	}
	return string(b)
}

// kindTable: 0-7 scalar, 8-9 enum, 10-15 message, 16 timestamp, 17 duration (flat sampling; rapid's
// integer ranges are biased towards their lower end)
var kindTable = []int{0, 1, 2, 3, 4, 5, 6, 7, 8, 9, 10, 11, 12, 13, 14, 15, 10, 12, 16, 17}

type candidate struct {
	name  string
	depth int
}

func (g *fileGen) refCandidates(maxDepth int, nonEmptyOnly bool) []string {
	var out []string
	for _, m := range g.f.Messages {
		if g.depth[m.Name] <= maxDepth {
			if nonEmptyOnly && len(m.Fields) == 0 {
				continue
			}
			out = append(out, m.Name)
		}
	}
	return out
}

func (g *fileGen) message(name string, last bool) *ir.Message {
	t, o := g.t, g.o
	m := &ir.Message{Name: name, Comment: comments(t, "mc", o.Comments)}
	names := newNameSet()
	g.flat[name] = names
	g.depth[name] = 0
	// A quarter of the messages hold only singular scalar-like fields: these are the
	// ones that can be embedded as nullable messages and that make small leaf objects.
	simple := rapid.IntRange(0, 3).Draw(t, "simple") == 0
	g.simple = simple
	g.embeddedOneofs = nil
	nf := rapid.IntRange(0, o.MaxFields).Draw(t, "nfields")
	if nf == 0 && (o.NoEmpty || last || rapid.IntRange(0, 2).Draw(t, "emptyok") != 0) {
		// empty messages are interesting but should not dominate; the last (root candidate) is never empty
		nf = rapid.IntRange(1, o.MaxFields).Draw(t, "nfields2")
	}
	if nf == 0 {
		return m
	}
	numbers := map[int32]bool{}
	nextNum := func() int32 {
		for {
			var n int32
			if rapid.IntRange(0, 9).Draw(t, "bignum") == 0 {
				n = int32(rapid.IntRange(16, 536870911).Draw(t, "num"))
			} else {
				n = int32(rapid.IntRange(1, 60).Draw(t, "num"))
			}
			for numbers[n] || (n >= 19000 && n <= 19999) {
				n++
			}
			numbers[n] = true
			return n
		}
	}
	embedded := map[string]bool{}
	oneofNames := []string{}
	i := 0
	for i < nf {
		// oneof block?
		pOne := 8
		if o.OneofHeavy {
			pOne = 3
		}
		if !simple && len(oneofNames) < 3 && rapid.IntRange(0, pOne).Draw(t, "oneof?") == 0 {
			on := g.oneofName(names)
			oneofNames = append(oneofNames, on)
			g.msgOneofs[name] = append(g.msgOneofs[name], on)
			nm := rapid.IntRange(1, 4).Draw(t, "nmembers")
			for j := 0; j < nm; j++ {
				fl := g.field(m, names, embedded, true)
				fl.Oneof = on
				fl.Number = nextNum()
				m.Fields = append(m.Fields, fl)
				i++
			}
			g.hasOneof[name] = true
			g.complex[name] = true
			continue
		}
		fl := g.field(m, names, embedded, false)
		fl.Number = nextNum()
		m.Fields = append(m.Fields, fl)
		i++
	}
	// A map next to a sibling whose attribute is called "value" or "key" (the names the synthetic map entry gives its
	// own fields) and has the type of the map's values: generated element code that looks an attribute up by the
	// wrong one of the two names goes unnoticed unless such a sibling exists.
	if rapid.Bool().Draw(t, "valuesibling") {
		for idx, mf := range m.Fields {
			if mf.Card != ir.Map || mf.Oneof != "" || mf.CustomType != "" {
				continue
			}
			cand := rapid.SampledFrom([]string{"value", "Value", "value", "Value", "key", "Key"}).Draw(t, "siblingname")
			if !names.okField(cand) {
				continue
			}
			names.addField(cand)
			sib := &ir.Field{Name: cand, Kind: mf.Kind, Type: mf.Type, Number: nextNum()}
			if cand == "key" || cand == "Key" {
				sib.Kind, sib.Type = "string", ""
			}
			if sib.Kind == ir.KMessage || sib.Kind == ir.KTimestamp || sib.Kind == ir.KDuration {
				if rapid.Bool().Draw(t, "siblingnullable") {
					sib.Nullable = boolp(false)
				}
				g.complex[name] = true
			}
			pos := idx // in front of the map, or behind it
			if rapid.Bool().Draw(t, "siblingafter") {
				pos = idx + 1
			}
			// never inside a oneof block
			for pos < len(m.Fields) && pos > 0 && m.Fields[pos].Oneof != "" && m.Fields[pos-1].Oneof == m.Fields[pos].Oneof {
				pos++
			}
			m.Fields = append(m.Fields[:pos], append([]*ir.Field{sib}, m.Fields[pos:]...)...)
			break
		}
	}
	return m
}

// oneofName draws a oneof name; one in four is derived from a oneof name used earlier in the file
// (prefix / suffix), so that names of different groups contain each other.
func (g *fileGen) oneofName(names *nameSet) string {
	t := g.t
	pool, p := g.oneofs, 3
	if len(g.embeddedOneofs) > 0 {
		// the message already embeds a message with oneofs: derive from those half of the time
		pool, p = g.embeddedOneofs, 1
	}
	if len(pool) > 0 && rapid.IntRange(0, p).Draw(t, "oneofderived") == 0 {
		base := rapid.SampledFrom(pool).Draw(t, "oneofbase")
		var cand string
		if base[0] >= 'a' && base[0] <= 'z' {
			cand = rapid.SampledFrom([]string{"my_" + base, base + "_ext"}).Draw(t, "oneofaffix")
		} else {
			cand = rapid.SampledFrom([]string{"Resource" + base, base + "Ext"}).Draw(t, "oneofaffix")
		}
		if names.okField(cand) {
			names.addField(cand)
			g.oneofs = append(g.oneofs, cand)
			return cand
		}
	}
	on := names.fresh(t, "oneofname")
	g.oneofs = append(g.oneofs, on)
	return on
}

func (g *fileGen) field(m *ir.Message, names *nameSet, embedded map[string]bool, inOneof bool) *ir.Field {
	t, o := g.t, g.o
	fl := &ir.Field{}
	// cardinality
	if !inOneof && !g.simple {
		switch rapid.IntRange(0, 9).Draw(t, "card") {
		case 0, 1:
			fl.Card = ir.Repeated
		case 2, 3:
			fl.Card = ir.Map
		}
	}
	// kind
	kindSel := rapid.SampledFrom(kindTable).Draw(t, "kindsel")
	if o.ScalarDense && kindSel >= 10 && rapid.Bool().Draw(t, "dense") {
		kindSel = rapid.IntRange(0, 9).Draw(t, "kindsel2")
	}
	if o.NoTemporal && (kindSel == 16 || kindSel == 17) {
		kindSel = 0
	}
	if g.simple && kindSel >= 10 && kindSel <= 15 {
		kindSel = rapid.IntRange(0, 9).Draw(t, "kindsel3")
	}
	switch {
	case kindSel <= 7:
		fl.Kind = rapid.SampledFrom(ir.Scalars).Draw(t, "scalar")
	case kindSel <= 9:
		if len(g.f.Enums) > 0 {
			fl.Kind = ir.KEnum
			fl.Type = rapid.SampledFrom(g.f.Enums).Draw(t, "enum").Name
		} else {
			fl.Kind = rapid.SampledFrom(ir.Scalars).Draw(t, "scalar")
		}
	case kindSel <= 15:
		// message: only a previously generated one (acyclic), respecting the depth bound
		c := g.refCandidates(2, false)
		if len(c) == 0 {
			fl.Kind = rapid.SampledFrom(ir.Scalars).Draw(t, "scalar")
			break
		}
		fl.Kind = ir.KMessage
		if o.MultiPath && len(c) > 1 && rapid.Bool().Draw(t, "reuse") {
			// bias to one message so that it occurs at several paths
			fl.Type = c[0]
		} else {
			fl.Type = rapid.SampledFrom(c).Draw(t, "msgref")
		}
	case kindSel <= 16:
		fl.Kind = ir.KTimestamp
	case kindSel <= 17:
		fl.Kind = ir.KDuration
	default:
		fl.Kind = rapid.SampledFrom(ir.Scalars).Draw(t, "scalar")
	}
	target := (*ir.Message)(nil)
	if fl.Kind == ir.KMessage {
		target = g.f.Msg(fl.Type)
	}
	// shapes covered by findings
	if fl.Kind == "bytes" && fl.Card == ir.Map && !o.AllowMapBytes {
		o.excluded()
		fl.Kind = "string"
	}
	if target != nil && len(target.Fields) == 0 && fl.Card != ir.Single && !o.AllowEmptyInCollections {
		o.excluded()
		fl.Card = ir.Single
	}
	// nullable option on message / std fields
	if fl.Kind == ir.KMessage || fl.Kind == ir.KTimestamp || fl.Kind == ir.KDuration {
		switch rapid.IntRange(0, 2).Draw(t, "nullable") {
		case 0:
			fl.Nullable = boolp(false)
		case 1:
			fl.Nullable = boolp(true)
		}
		if inOneof {
			fl.Nullable = nil // oneof members are always pointers; gogo ignores the option
		}
	}
	// embedding
	pEmb := 1
	if o.QualHeavy {
		pEmb = 0
	}
	if target != nil && fl.Card == ir.Single && !inOneof && len(target.Fields) > 0 && !embedded[fl.Type] &&
		(rapid.IntRange(0, pEmb).Draw(t, "embed?") == 0 || !g.complex[fl.Type]) && g.canEmbed(m, target, names, fl) {
		fl.Embed = true
		embedded[fl.Type] = true
		// The embedded Go field is named after the type; the proto field name may differ
		// (test.proto: "MaxAgeDuration EmbedNullable = 39").
		fl.Name = fl.Type
		if !names.okField(fl.Type) {
			fl.Embed = false
			delete(embedded, fl.Type)
		} else {
			names.addField(fl.Type)
			if rapid.Bool().Draw(t, "embedrename") {
				fl.Name = names.fresh(t, "embedname")
			}
			// merge the embedded message's flattened names
			for k := range g.flat[fl.Type].goNames {
				names.goNames[k] = true
			}
			for k := range g.flat[fl.Type].attrs {
				names.attrs[k] = true
			}
			g.hasEmbed[m.Name] = true
			if g.hasOneof[fl.Type] {
				g.hasOneof[m.Name] = true
				g.embeddedOneofs = append(g.embeddedOneofs, g.msgOneofs[fl.Type]...)
				g.msgOneofs[m.Name] = append(g.msgOneofs[m.Name], g.msgOneofs[fl.Type]...)
			}
			if g.complex[fl.Type] {
				g.complex[m.Name] = true
			}
			if g.hasCustom[fl.Type] {
				g.hasCustom[m.Name] = true
			}
		}
	}
	if !fl.Embed {
		reused := false
		if fl.Kind == ir.KMessage && (o.MultiPath || rapid.IntRange(0, 3).Draw(t, "reusepair0") == 0) && rapid.Bool().Draw(t, "reusepair") {
			for _, p := range g.pairs {
				if p[1] == fl.Type && names.okField(p[0]) {
					fl.Name = p[0]
					names.addField(p[0])
					reused = true
					break
				}
			}
		}
		if !reused && fl.Kind == ir.KMessage && fl.Card == ir.Single && rapid.IntRange(0, 9).Draw(t, "valuename") == 0 {
			// "value" and "key" are the field names of protoc's synthetic map-entry messages: a real
			// field of that name next to a map is a classic source of mixed-up lookups
			for _, cand := range []string{"value", "Value", "key"} {
				if names.okField(cand) {
					fl.Name = cand
					names.addField(cand)
					reused = true
					break
				}
			}
		}
		if !reused && fl.Kind == ir.KMessage && rapid.IntRange(0, 7).Draw(t, "typename") == 0 && names.okField(fl.Type) {
			// a field named after its type (the README's `Metadata Metadata = 2`): <Type>.<Child> is then both the
			// Message.Field key of the child and the tail of its full path
			fl.Name = fl.Type
			names.addField(fl.Type)
			g.pairs = append(g.pairs, [2]string{fl.Name, fl.Type})
			reused = true
		}
		if !reused && fl.Kind == "bool" && fl.Card == ir.Single && !inOneof && fl.CastType == "" && fl.CustomType == "" && rapid.IntRange(0, 2).Draw(t, "activename") == 0 {
			// "active" is the name of the placeholder attribute of an empty message (a computed bool): a real
			// bool field of that name must still be converted
			for _, cand := range []string{"active", "Active"} {
				if names.okField(cand) {
					fl.Name = cand
					names.addField(cand)
					reused = true
					break
				}
			}
		}
		if !reused {
			fl.Name = names.fresh(t, "fname")
			if fl.Kind == ir.KMessage {
				g.pairs = append(g.pairs, [2]string{fl.Name, fl.Type})
			}
		}
	}
	if target != nil {
		if d := g.depth[fl.Type] + 1; d > g.depth[m.Name] {
			g.depth[m.Name] = d
		}
	}
	if fl.Card != ir.Single || (fl.Kind == ir.KMessage && !fl.Embed) || inOneof {
		g.complex[m.Name] = true
	}
	// cast type (scalars; not as map value)
	if fl.IsScalar() && fl.Card != ir.Map {
		p := 6
		if o.QualHeavy {
			p = 2
		}
		if cs := castFor(fl.Kind); len(cs) > 0 && rapid.IntRange(0, p).Draw(t, "cast?") == 0 {
			fl.CastType = rapid.SampledFrom(cs).Draw(t, "cast")
			if o.NoTemporal && (fl.CastType == "Duration" || fl.CastType == "time.Duration") {
				fl.CastType = "MyInt64"
			}
			if inOneof && !o.AllowDurationCastInOneof && (fl.CastType == "Duration" || fl.CastType == "time.Duration") {
				o.excluded()
				fl.CastType = "MyInt64"
			}
		}
	}
	// int64 with (gogoproto.stdduration) = true, as test.proto's DurationStandard: a time.Duration held by value
	if fl.Kind == "int64" && fl.CastType == "" && fl.Card == ir.Single && !inOneof && !o.NoTemporal && rapid.IntRange(0, 7).Draw(t, "stddur?") == 0 {
		fl.StdDurationOnInt = true
	}
	// custom type via proto option (singular or repeated scalar; not oneof, not map)
	if fl.StdDurationOnInt {
		return g.finishField(fl, names)
	}
	if !o.NoCustom && fl.IsScalar() && fl.CastType == "" && fl.Card != ir.Map && !inOneof {
		p := 14
		if o.CustomFields {
			p = 3
		}
		if rapid.IntRange(0, p).Draw(t, "custom?") == 0 {
			fl.CustomType = rapid.SampledFrom([]string{"BoolCustom", "StrCustom", "IntCustom"}).Draw(t, "customtype")
			g.hasCustom[m.Name] = true
			if fl.Card == ir.Single {
				// gogo makes a singular customtype field a pointer unless nullable=false
				if rapid.Bool().Draw(t, "customnullable") {
					fl.Nullable = boolp(false)
				}
			}
		}
	}
	return g.finishField(fl, names)
}

// finishField draws the json tag and the comments of a field.
func (g *fileGen) finishField(fl *ir.Field, names *nameSet) *ir.Field {
	t, o := g.t, g.o
	// json tag
	if !fl.Embed {
		switch rapid.IntRange(0, 10).Draw(t, "jsontag") {
		case 10:
			// camelCase tags are what protoc-gen-gogo users usually write
			fl.JSONTag = strp("jt" + GoName(fl.Name) + "Camel,omitempty")
		case 0:
			fl.JSONTag = strp("jt_" + Snake(fl.Name) + "_x")
		case 1:
			fl.JSONTag = strp("jt_" + Snake(fl.Name) + "_y,omitempty")
		case 2:
			fl.JSONTag = strp("-")
		case 3:
			fl.JSONTag = strp("")
		case 4:
			fl.JSONTag = strp(",omitempty")
		}
		if fl.JSONTag != nil {
			n := *fl.JSONTag
			if n != "" && n != "-" && n[0] != ',' {
				names.attrs[splitComma(n)] = true
			}
		}
	} else if rapid.Bool().Draw(t, "embedtag") {
		fl.JSONTag = strp("")
	}
	fl.Comment = comments(t, "fc", o.Comments)
	return fl
}

func splitComma(s string) string {
	for i := 0; i < len(s); i++ {
		if s[i] == ',' {
			return s[:i]
		}
	}
	return s
}

// canEmbed decides whether target may be embedded into m without leaving D.
func (g *fileGen) canEmbed(m *ir.Message, target *ir.Message, names *nameSet, fl *ir.Field) bool {
	o := g.o
	tn := g.flat[target.Name]
	// the embedded Go field is named after the type: it must not shadow one of the type's own
	// (flattened) fields, e.g. message Spec { ... Spec = 5; } embedded as obj.Spec
	if tn.goNames[GoName(target.Name)] || tn.goNames[target.Name] {
		return false
	}
	for k := range tn.goNames {
		if names.goNames[k] {
			return false
		}
	}
	for k := range tn.attrs {
		if names.attrs[k] {
			return false
		}
	}
	if g.hasOneof[target.Name] && !o.AllowOneofInEmbedded {
		o.excluded()
		return false
	}
	nullable := fl.IsNullable()
	if nullable {
		if g.hasEmbed[target.Name] || g.hasOneof[target.Name] || g.hasCustom[target.Name] {
			// not in D: a nullable embedded message that itself embeds or holds a oneof
			fl.Nullable = boolp(false)
			return true
		}
		if !o.AllowNullableEmbed {
			o.excluded()
			fl.Nullable = boolp(false)
			return true
		}
		if g.complex[target.Name] && !o.AllowNullableEmbedComplex {
			o.excluded()
			fl.Nullable = boolp(false)
			return true
		}
	}
	return true
}

func boolp(b bool) *bool    { return &b }
func strp(s string) *string { return &s }
