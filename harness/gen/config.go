package gen

import (
	"fmt"
	"strings"

	"pgregory.net/rapid"

	"verif/ir"
	"verif/model"
)

var pkgNames = []string{"types", "apitypes", "diag", "attr", "tfsdk", "tftypes", "api", "pb", "v1", "proto", "wrappers"}
var tgtNames = []string{"tfschema", "provider", "types", "schema", "gen", "diag", "tf"}

// DrawLayout draws package placement for one variant. separate: nil = draw.
func DrawLayout(t *rapid.T, variant string, f *ir.File, separate *bool) *ir.Layout {
	l := &ir.Layout{Variant: variant}
	sep := false
	if separate != nil {
		sep = *separate
	} else {
		sep = rapid.Bool().Draw(t, "separate")
	}
	l.Separate = sep
	useGoPackage := sep || rapid.Bool().Draw(t, "go_package")
	if useGoPackage {
		name := rapid.SampledFrom(pkgNames).Draw(t, "structpkg")
		mid := rapid.SampledFrom([]string{"", "api/", "gen/go/", "x.y/", "AcmeCorp/", "Gen/Types/"}).Draw(t, "structmid")
		l.StructDir = variant + "/" + mid + name
		dotted := rapid.IntRange(0, 4).Draw(t, "dottedpath") == 0
		if dotted {
			l.StructDir += ".v1" // gopkg.in / versioned style: the last path element contains a dot
		}
		l.StructPath = ir.Module + "/" + l.StructDir
		l.StructName = name
		f.GoPackage = l.StructPath
		if dotted || rapid.IntRange(0, 3).Draw(t, "gopkgsemi") == 0 {
			f.GoPackage = l.StructPath + ";" + name
		}
	} else {
		f.GoPackage = ""
		l.StructName = f.Package // cleanPackageName of a plain identifier
		l.StructDir = variant + "/" + l.StructName
		l.StructPath = ir.Module + "/" + l.StructDir
	}
	if sep {
		l.TargetName = rapid.SampledFrom(tgtNames).Draw(t, "targetpkg")
		l.TargetDir = variant + "/tf/" + l.TargetName
		l.TargetPath = ir.Module + "/" + l.TargetDir
		l.UseOverride = rapid.Bool().Draw(t, "override")
	} else {
		l.TargetName, l.TargetDir, l.TargetPath = l.StructName, l.StructDir, l.StructPath
	}
	l.QualifiedTF = rapid.Bool().Draw(t, "qualifiedtf")
	return l
}

const SupportPath = ir.SupportPath

// KOpts steers the configuration generator.
type KOpts struct {
	Types       []string // nil = draw
	NoFieldOpts bool
	NoTimeType  bool
	Rich        bool // C10/C14: many entries in every map
	SetTarget   bool // same-package: still set target_package_name explicitly
	NoExclude   bool
	NoCustom    bool
	NoDep       bool // never move declarations into an imported file
	NoInjected  bool
	OnlyCLI     bool // C16: restrict to the nine two-channel options
	CustomRich  bool // C17: custom_types entries are frequent
	ManyTypes   bool // C11: most messages are selected, so that a nested type occurs under several roots
	Sort        *bool
}

func nonEmpty(f *ir.File) []string {
	var out []string
	for _, m := range f.Messages {
		if len(m.Fields) > 0 && !m.InDep {
			out = append(out, m.Name)
		}
	}
	return out
}

// DrawTypes draws a non-empty subset of the non-empty messages. The message
// declared last by the generator (the one with the deepest reference graph) is
// usually among them.
func DrawTypes(t *rapid.T, f *ir.File, many ...bool) []string {
	c := nonEmpty(f)
	deepest, best := "", -1
	for _, n := range c {
		if d := refDepth(f, n, 0); d > best {
			deepest, best = n, d
		}
	}
	// one case in four selects most messages, so that nested types occur below several roots
	manyByChance := rapid.IntRange(0, 3).Draw(t, "manytypes0") == 0
	var out []string
	for _, n := range c {
		if (len(many) > 0 && many[0]) || manyByChance {
			if rapid.IntRange(0, 5).Draw(t, "type?") != 0 {
				out = append(out, n)
			}
			continue
		}
		if (n == deepest && rapid.IntRange(0, 5).Draw(t, "deepest?") != 0) || rapid.IntRange(0, 2).Draw(t, "type?") == 0 {
			out = append(out, n)
		}
	}
	if len(out) == 0 {
		out = []string{rapid.SampledFrom(c).Draw(t, "type1")}
	}
	return out
}

func refDepth(f *ir.File, name string, guard int) int {
	m := f.Msg(name)
	if m == nil || guard > 12 {
		return 0
	}
	d := 0
	for _, fl := range m.Fields {
		if fl.Kind == ir.KMessage {
			if x := 1 + refDepth(f, fl.Type, guard+1); x > d {
				d = x
			}
		}
	}
	return d
}

// SplitDep moves some declarations into an imported file of the same package (ir.Message.InDep): real .proto trees
// spread their messages over several files, and a selected type may reach messages the generated file does not
// declare. The moved set is closed under references (an imported file cannot refer back).
func SplitDep(t *rapid.T, f *ir.File, types []string) {
	// One split in three may also move selected types: `types` names messages of the package, and a selected
	// message that is declared in the imported file is generated into the output all the same (C01: the three
	// functions exist for each selected message).
	if rapid.IntRange(0, 2).Draw(t, "deproots") == 0 {
		types = nil
	}
	var closure func(name string, acc map[string]bool) bool
	closure = func(name string, acc map[string]bool) bool {
		if acc[name] {
			return true
		}
		if ir.Has(types, name) {
			return false
		}
		m := f.Msg(name)
		if m == nil {
			return false
		}
		acc[name] = true
		for _, fl := range m.Fields {
			if fl.Kind == ir.KMessage && !closure(fl.Type, acc) {
				return false
			}
		}
		return true
	}
	moved := map[string]bool{}
	for i, m := range f.Messages {
		if ir.Has(types, m.Name) || moved[m.Name] || rapid.IntRange(0, 2).Draw(t, fmt.Sprintf("dep%d", i)) == 0 {
			continue
		}
		acc := map[string]bool{}
		if closure(m.Name, acc) {
			for k := range acc {
				moved[k] = true
			}
		}
	}
	enums := map[string]bool{}
	for _, m := range f.Messages {
		if !moved[m.Name] {
			continue
		}
		m.InDep = true
		for _, fl := range m.Fields {
			if fl.Kind == ir.KEnum {
				enums[fl.Type] = true
			}
		}
	}
	// The two files may spell the same Go package differently in their go_package options ("path" and "path;name").
	if len(moved) > 0 && rapid.IntRange(0, 2).Draw(t, "depgopkg") == 0 {
		f.DepAltSpelling = true
	}
	for i, e := range f.Enums {
		// enums the moved messages use must move; others may
		if enums[e.Name] || (len(moved) > 0 && rapid.IntRange(0, 3).Draw(t, fmt.Sprintf("depenum%d", i)) == 0) {
			e.InDep = true
		}
	}
}

// Rebase returns a copy of c with the package options of layout l.
func Rebase(c *ir.Config, l *ir.Layout, setTarget bool) *ir.Config {
	out := ir.Clone(c)
	out.DefaultPackageName, out.TargetPackageName, out.ImportPathOverrides = "", "", nil
	applyLayout(out, l, setTarget)
	return out
}

func applyLayout(c *ir.Config, l *ir.Layout, setTarget bool) {
	if l.Separate {
		c.TargetPackageName = l.TargetName
		if l.UseOverride {
			c.DefaultPackageName = l.StructName
			c.ImportPathOverrides = map[string]string{l.StructName: l.StructPath}
		} else {
			c.DefaultPackageName = l.StructPath
		}
	} else if setTarget {
		c.TargetPackageName = l.TargetName
	}
	tq, dq := "", ""
	if l.QualifiedTF {
		tq, dq = SupportPath+".", SupportPath+"."
	}
	if c.TimeType != nil {
		c.TimeType.Type = tq + "TimeType"
		c.TimeType.ValueType = tq + "TimeValue"
		if c.TimeType.TypeConstructor != "" {
			c.TimeType.TypeConstructor = tq + "UseTime()"
		}
	}
	if c.DurationType != nil {
		c.DurationType.Type = dq + "DurationType"
		c.DurationType.ValueType = dq + "DurationValue"
		if c.DurationType.TypeConstructor != "" {
			c.DurationType.TypeConstructor = dq + "UseDuration()"
		}
	}
}

// Config draws a configuration for f under layout l.
func Config(t *rapid.T, f *ir.File, l *ir.Layout, o KOpts) *ir.Config {
	c := &ir.Config{}
	if o.Types != nil {
		c.Types = o.Types
	} else {
		c.Types = DrawTypes(t, f, o.ManyTypes)
	}
	if !o.NoDep && !f.HasDep() && rapid.IntRange(0, 3).Draw(t, "splitdep") == 0 {
		SplitDep(t, f, c.Types)
	}
	if o.Sort != nil {
		c.Sort = *o.Sort
	} else {
		c.Sort = rapid.Bool().Draw(t, "sort")
	}
	c.UseStateForUnknown = rapid.Bool().Draw(t, "usfu")
	if !o.NoTimeType {
		c.TimeType = &ir.SchemaType{CastToType: "time.Time", CastFromType: "time.Time"}
		if rapid.Bool().Draw(t, "timector") {
			c.TimeType.TypeConstructor = "x"
		}
		c.DurationType = &ir.SchemaType{CastToType: "time.Duration", CastFromType: "time.Duration"}
		if rapid.Bool().Draw(t, "durctor") {
			c.DurationType.TypeConstructor = "x"
		}
	}
	if rapid.Bool().Draw(t, "durcustom") {
		c.DurationCustomType = "Duration"
	}
	applyLayout(c, l, o.SetTarget || rapid.Bool().Draw(t, "settarget"))
	if o.NoFieldOpts {
		return c
	}
	FieldOptions(t, f, c, o)
	return c
}

// listLens: lengths of validator / plan-modifier lists. Mostly one to three entries, now and then a long list (code that
// treats long lists differently - de-duplication through a map, chunking - only shows with more than a handful) or an
// explicitly empty one (`key: []` is an entry: it overrides the Message.Field entry and the UseStateForUnknown default).
var listLens = []int{1, 1, 1, 2, 2, 2, 3, 3, 1, 2, 3, 9, 12, 17, 0, 0}

// FieldOptions draws the field-addressed options into c.
func FieldOptions(t *rapid.T, f *ir.File, c *ir.Config, o KOpts) {
	occ := model.Occurrences(f, c.Types)
	if len(occ) == 0 {
		return
	}
	p := 6 // 1/(p+1) per occurrence and option
	if o.Rich {
		p = 2
	}
	key := func(oc model.Occurrence, label string) string {
		if oc.EmbedKey != "" && !oc.Embed && rapid.IntRange(0, 2).Draw(t, label+".embedkey") == 0 {
			return oc.EmbedKey // the promoted field addressed through the embedding message
		}
		if oc.FullKey != "" && (oc.FullKey == oc.TypeKey || rapid.Bool().Draw(t, label+".full")) {
			return oc.FullKey
		}
		return oc.TypeKey
	}
	// exclusions: never all fields of a message
	excludedPerMsg := map[string]map[string]bool{}
	isExcluded := func(oc model.Occurrence) bool {
		return ir.Has(c.ExcludeFields, oc.TypeKey) || (oc.FullKey != "" && ir.Has(c.ExcludeFields, oc.FullKey)) || (oc.EmbedKey != "" && ir.Has(c.ExcludeFields, oc.EmbedKey))
	}
	if !o.NoExclude {
		for i, oc := range occ {
			if rapid.IntRange(0, p+2).Draw(t, fmt.Sprintf("ex%d", i)) != 0 {
				continue
			}
			msg := f.Msg(oc.Message)
			set := excludedPerMsg[oc.Message]
			if set == nil {
				set = map[string]bool{}
				excludedPerMsg[oc.Message] = set
			}
			real := 0 // fields that leave something to convert (an embedded message without fields does not)
			for _, mf := range msg.Fields {
				if mf.Embed {
					if sub := f.Msg(mf.Type); sub != nil && len(sub.Fields) == 0 {
						continue
					}
				}
				real++
			}
			if set[oc.Field.Name] || len(set)+1 >= real {
				continue
			}
			set[oc.Field.Name] = true
			k := oc.TypeKey
			if !oc.Embed {
				k = key(oc, "exkey")
			}
			if !ir.Has(c.ExcludeFields, k) {
				c.ExcludeFields = append(c.ExcludeFields, k)
			}
		}
	}
	flag := func(dst *[]string, label string) {
		for i, oc := range occ {
			if oc.Embed || isExcluded(oc) {
				continue
			}
			pp := p
			if label == "comp" && Snake(oc.Field.Name) == "active" {
				pp = 1 // a real field that looks like the placeholder of an empty message (computed bool "active")
			}
			if rapid.IntRange(0, pp).Draw(t, fmt.Sprintf("%s%d", label, i)) == 0 {
				k := key(oc, label+"key")
				if !ir.Has(*dst, k) {
					*dst = append(*dst, k)
				}
			}
		}
	}
	flag(&c.RequiredFields, "req")
	flag(&c.ComputedFields, "comp")
	flag(&c.SensitiveFields, "sens")
	if o.OnlyCLI {
		return
	}
	// map-valued options: at most one applicable key per occurrence
	taken := func(m interface{ has(string) bool }, oc model.Occurrence) bool {
		return m.has(oc.TypeKey) || (oc.FullKey != "" && m.has(oc.FullKey)) || (oc.EmbedKey != "" && m.has(oc.EmbedKey))
	}
	// name overrides
	ovr := 0
	c.NameOverrides = map[string]string{}
	// The attribute name of a field that is excluded everywhere (Message.Field form) is free again: now and then a later
	// sibling takes it over through name_overrides ("legacy `version` excluded, `api_version` renamed to version").
	if !o.NoExclude {
		for _, m := range f.Messages {
			for i, fl := range m.Fields {
				if fl.Embed || !ir.Has(c.ExcludeFields, m.Name+"."+fl.Name) || rapid.IntRange(0, 2).Draw(t, "reusename") != 0 {
					continue
				}
				name := Snake(fl.Name)
				if fl.JSONTag != nil {
					if n := strings.Split(*fl.JSONTag, ",")[0]; n != "" && n != "-" {
						name = n
					}
				}
				for _, sib := range m.Fields[i+1:] {
					sk := m.Name + "." + sib.Name
					if sib.Embed || ir.Has(c.ExcludeFields, sk) {
						continue
					}
					fullExcluded := false
					for _, oc := range occ {
						if oc.TypeKey == sk && isExcluded(oc) {
							fullExcluded = true
						}
					}
					if !fullExcluded {
						c.NameOverrides[sk] = name
					}
					break
				}
			}
		}
	}
	for i, oc := range occ {
		if oc.Embed || isExcluded(oc) || taken(strMap(c.NameOverrides), oc) {
			continue
		}
		if rapid.IntRange(0, p).Draw(t, fmt.Sprintf("ovr%d", i)) == 0 {
			ovr++
			name := fmt.Sprintf("ovr%d_name", ovr)
			if rapid.IntRange(0, 3).Draw(t, "ovrcamel") == 0 {
				name = fmt.Sprintf("ovr%dCamelName", ovr)
			}
			c.NameOverrides[key(oc, "ovrkey")] = name
		}
	}
	c.Validators = map[string][]string{}
	c.PlanModifiers = map[string][]string{}
	for i, oc := range occ {
		if oc.Embed || isExcluded(oc) {
			continue
		}
		if !taken(listMap(c.Validators), oc) && rapid.IntRange(0, p).Draw(t, fmt.Sprintf("val%d", i)) == 0 {
			n := rapid.SampledFrom(listLens).Draw(t, "nval")
			var l []string
			for j := 0; j < n; j++ {
				if rapid.IntRange(0, 4).Draw(t, "vargs") == 0 {
					// arguments with dots, quotes and slashes
					l = append(l, SupportPath+"."+rapid.SampledFrom([]string{`VS("a.b")`, `VS("v1.example.com/x y")`, `VF(0.5)`, `VF(1.25)`}).Draw(t, "varg"))
					continue
				}
				l = append(l, fmt.Sprintf("%s.V(%d)", SupportPath, rapid.IntRange(1, 9+n).Draw(t, "vid")))
			}
			if l == nil {
				l = []string{}
			}
			vk := key(oc, "valkey")
			c.Validators[vk] = l
			if len(l) == 0 && vk != oc.TypeKey && rapid.Bool().Draw(t, "valboth") {
				// an empty path-form entry over a non-empty Message.Field entry: the path form wins
				c.Validators[oc.TypeKey] = []string{fmt.Sprintf("%s.V(%d)", SupportPath, 30+i%9)}
			}
		}
		if !taken(listMap(c.PlanModifiers), oc) && rapid.IntRange(0, p).Draw(t, fmt.Sprintf("pm%d", i)) == 0 {
			n := rapid.SampledFrom(listLens).Draw(t, "npm")
			var l []string
			for j := 0; j < n; j++ {
				if rapid.IntRange(0, 5).Draw(t, "pmargs") == 0 {
					l = append(l, SupportPath+"."+rapid.SampledFrom([]string{`PMS("a.b")`, `PMS("x/y.z")`}).Draw(t, "pmarg"))
					continue
				}
				if rapid.IntRange(0, 3).Draw(t, "pmrr") == 0 {
					l = append(l, "github.com/hashicorp/terraform-plugin-framework/tfsdk.RequiresReplace()")
				} else {
					l = append(l, fmt.Sprintf("%s.PM(%d)", SupportPath, rapid.IntRange(1, 9+n).Draw(t, "pmid")))
				}
			}
			if l == nil {
				l = []string{}
			}
			pk := key(oc, "pmkey")
			c.PlanModifiers[pk] = l
			if len(l) == 0 && pk != oc.TypeKey && rapid.Bool().Draw(t, "pmboth") {
				c.PlanModifiers[oc.TypeKey] = []string{fmt.Sprintf("%s.PM(%d)", SupportPath, 30+i%9)}
			}
		}
	}
	// custom types via configuration (full path only; singular, repeated or a map of scalars; not oneof/embedded)
	if !o.NoCustom {
		c.CustomTypes = map[string]string{}
		c.Suffixes = map[string]string{}
		cts := []string{"StringCustom", "github.com/acme/api/wrappers.Traits", "wrappers.Labels", "a/b.C",
			// underscores stay in the default suffix (only dots and slashes are removed)
			"wrappers.Trait_Map", "github.com/acme/api_types/wrappers.Labels"}
		if c.DefaultPackageName != "" {
			// a custom type that lives in the struct package, spelled with its qualifier
			cts = append(cts, c.DefaultPackageName+".Traits", c.DefaultPackageName+".Traits")
		}
		for i, oc := range occ {
			fl := oc.Field
			if oc.Embed || isExcluded(oc) || oc.FullKey == "" || fl.Oneof != "" || fl.CustomType != "" || fl.Kind == ir.KMessage || fl.Kind == ir.KTimestamp || fl.Kind == ir.KDuration {
				continue
			}
			// Temporal kinds are left out: the harness's hooks render field values as JSON, and
			// encoding/json rejects instants whose year (in their zone) is outside [0, 9999].
			// A Message.Field exclusion/override of the same field elsewhere is unaffected.
			pc := p + 6
			if o.CustomRich {
				pc = 2
			}
			if rapid.IntRange(0, pc).Draw(t, fmt.Sprintf("ct%d", i)) == 0 {
				ct := rapid.SampledFrom(cts).Draw(t, "ctname")
				c.CustomTypes[oc.FullKey] = ct
				if rapid.Bool().Draw(t, "ctsuffix") {
					c.Suffixes[ct] = "Sfx" + strings.NewReplacer("/", "", ".", "").Replace(ct)[:3]
				}
			}
		}
		// decoy suffix entries keyed by the bare name of a package-qualified custom type that has no entry of its own:
		// a suffix is looked up by the full type name, so these must stay without effect
		if rapid.Bool().Draw(t, "decoysuffix") {
			used := map[string]bool{}
			for _, ct := range c.CustomTypes {
				used[ct] = true
			}
			for _, ct := range ir.SortedKeys(used) {
				if _, has := c.Suffixes[ct]; !has && strings.Count(ct, "/") >= 2 {
					// ... and entries for types of the same name in sibling packages, equally "close" to the type in use
					dir, base := ct[:strings.LastIndex(ct, "/")], ct[strings.LastIndex(ct, "/")+1:]
					parent := dir[:strings.LastIndex(dir, "/")]
					c.Suffixes[parent+"/legacy/"+base] = "DecoyLegacy"
					c.Suffixes[parent+"/v2/"+base] = "DecoyV2"
				}
				if i := strings.LastIndex(ct, "."); i >= 0 {
					if _, has := c.Suffixes[ct]; !has {
						if _, taken := c.Suffixes[ct[i+1:]]; !taken && !used[ct[i+1:]] {
							c.Suffixes[ct[i+1:]] = "Decoy" + ct[i+1:]
						}
					}
				}
			}
		}
		// suffixes for proto-level custom types
		for _, n := range ir.SortedKeys(f.CustomTypes) {
			if rapid.IntRange(0, 2).Draw(t, "protosuffix") == 0 {
				c.Suffixes[n] = n[:3] + "Special"
			}
		}
	}
	// injected fields
	if !o.NoInjected {
		c.InjectedFields = map[string][]ir.InjectedField{}
		inj := 0
		types := []string{
			"github.com/hashicorp/terraform-plugin-framework/types.StringType",
			"github.com/hashicorp/terraform-plugin-framework/types.Int64Type",
			"github.com/hashicorp/terraform-plugin-framework/types.BoolType",
			"github.com/hashicorp/terraform-plugin-framework/types.Float64Type",
			SupportPath + ".UseTime()",
		}
		pathMsg := map[string]string{}
		for _, tn := range c.Types {
			pathMsg[tn] = tn
		}
		for _, oc := range occ {
			if oc.FullKey != "" && oc.Field.Kind == ir.KMessage && !oc.Embed {
				pathMsg[oc.FullKey] = oc.Field.Type
			}
		}
		overrideUsed := func(name string) bool {
			for _, v := range c.NameOverrides {
				if v == name {
					return true
				}
			}
			return false
		}
		for i, mp := range model.MessagePaths(f, c.Types) {
			if rapid.IntRange(0, p+1).Draw(t, fmt.Sprintf("inj%d", i)) != 0 {
				continue
			}
			n := rapid.IntRange(1, 3).Draw(t, "ninj")
			for j := 0; j < n; j++ {
				inj++
				name := fmt.Sprintf("inj%d_id", inj)
				if m := f.Msg(pathMsg[mp]); j == 0 && m != nil && rapid.IntRange(0, 2).Draw(t, "injtwin") == 0 {
					// "hide the backend's numeric id, inject the provider's string id": the injected attribute takes the
					// name of a declared field that is excluded everywhere (the name is free)
					for _, fl := range m.Fields {
						if fl.Embed || !ir.Has(c.ExcludeFields, m.Name+"."+fl.Name) {
							continue
						}
						twin := Snake(fl.Name)
						if fl.JSONTag != nil {
							if tn := strings.Split(*fl.JSONTag, ",")[0]; tn != "" && tn != "-" {
								twin = tn
							}
						}
						if !overrideUsed(twin) {
							name = twin
						}
						break
					}
				}
				fld := ir.InjectedField{
					Name:     name,
					Type:     rapid.SampledFrom(types).Draw(t, "injtype"),
					Required: rapid.Bool().Draw(t, "injreq"),
					Computed: rapid.Bool().Draw(t, "injcomp"),
					Optional: rapid.Bool().Draw(t, "injopt"),
				}
				if rapid.IntRange(0, 2).Draw(t, "injval") == 0 {
					fld.Validators = []string{fmt.Sprintf("%s.V(%d)", SupportPath, 10+inj)}
				}
				if rapid.IntRange(0, 2).Draw(t, "injpm") == 0 {
					fld.PlanModifiers = []string{fmt.Sprintf("%s.PM(%d)", SupportPath, 10+inj)}
				}
				c.InjectedFields[mp] = append(c.InjectedFields[mp], fld)
			}
		}
	}
	prune(c)
}

type strMap map[string]string

func (m strMap) has(k string) bool { _, ok := m[k]; return ok }

type listMap map[string][]string

func (m listMap) has(k string) bool { _, ok := m[k]; return ok }

func prune(c *ir.Config) {
	if len(c.NameOverrides) == 0 {
		c.NameOverrides = nil
	}
	if len(c.Validators) == 0 {
		c.Validators = nil
	}
	if len(c.PlanModifiers) == 0 {
		c.PlanModifiers = nil
	}
	if len(c.CustomTypes) == 0 {
		c.CustomTypes = nil
	}
	if len(c.Suffixes) == 0 {
		c.Suffixes = nil
	}
	if len(c.InjectedFields) == 0 {
		c.InjectedFields = nil
	}
}
