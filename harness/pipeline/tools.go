// Package pipeline runs the real tools: the plugin built from the repository's
// working tree, protoc-gen-gogo from the module cache, and the Go toolchain.
package pipeline

import (
	"bytes"
	"crypto/sha256"
	"encoding/hex"
	"errors"
	"fmt"
	"os"
	"os/exec"
	"path/filepath"
	"strings"
	"time"

	gogoproto "github.com/gogo/protobuf/proto"
	gogoplugin "github.com/gogo/protobuf/protoc-gen-gogo/plugin"
	"google.golang.org/protobuf/proto"
	"google.golang.org/protobuf/types/pluginpb"
)

// ErrInfra marks failures of the machinery itself (exit 2), never a verdict.
type ErrInfra struct{ Err error }

func (e ErrInfra) Error() string { return "infrastructure: " + e.Err.Error() }
func (e ErrInfra) Unwrap() error { return e.Err }

func Infra(format string, a ...interface{}) error { return ErrInfra{fmt.Errorf(format, a...)} }

func IsInfra(err error) bool {
	var e ErrInfra
	return errors.As(err, &e)
}

type Tools struct {
	Repo      string // repository under test
	Plugin    string // protoc-gen-terraform binary built from Repo
	Gogo      string // protoc-gen-gogo binary
	Harness   string // path of the verif harness module (for replace directives)
	Scratch   string // scratch root
	PluginSHA string
}

func GoEnv(extra ...string) []string {
	env := os.Environ()
	out := make([]string, 0, len(env)+8)
	for _, e := range env {
		if strings.HasPrefix(e, "GOFLAGS=") || strings.HasPrefix(e, "GOPROXY=") || strings.HasPrefix(e, "GOSUMDB=") || strings.HasPrefix(e, "GOTOOLCHAIN=") {
			continue
		}
		out = append(out, e)
	}
	out = append(out, "GOFLAGS=-mod=mod", "GOPROXY=off", "GOSUMDB=off", "GOTOOLCHAIN=local")
	out = append(out, extra...)
	return out
}

func HarnessDir() string {
	if d := os.Getenv("VERIF_HARNESS"); d != "" {
		return d
	}
	return "/verif/harness"
}

func RepoDir() string {
	if d := os.Getenv("VERIF_REPO"); d != "" {
		return d
	}
	return "/repo"
}

func ScratchRoot() string {
	if d := os.Getenv("VERIF_SCRATCH"); d != "" {
		return d
	}
	return "/var/tmp"
}

func fileSHA(path string) string {
	b, err := os.ReadFile(path)
	if err != nil {
		return ""
	}
	s := sha256.Sum256(b)
	return hex.EncodeToString(s[:])
}

// BuildTools builds the plugin from the repository's current working tree and
// protoc-gen-gogo from the module cache into dir.
func BuildTools(repo, dir string) (*Tools, error) {
	if err := os.MkdirAll(dir, 0o755); err != nil {
		return nil, Infra("mkdir %s: %v", dir, err)
	}
	t := &Tools{Repo: repo, Harness: HarnessDir(), Scratch: dir,
		Plugin: filepath.Join(dir, "protoc-gen-terraform"), Gogo: filepath.Join(dir, "protoc-gen-gogo")}
	args := []string{"build", "-o", t.Plugin, "."}
	if os.Getenv("VERIF_COVER") != "" {
		// engine cov: statement coverage of the generator reached by the generated descriptors
		// (reported in the evidence as a measure of generator completeness, never as a verdict)
		args = []string{"build", "-cover", "-o", t.Plugin, "."}
	}
	cmd := exec.Command("go", args...)
	cmd.Dir = repo
	cmd.Env = GoEnv("GOFLAGS=-mod=readonly")
	if out, err := cmd.CombinedOutput(); err != nil {
		// A tree that does not build cannot be judged.
		return nil, Infra("building plugin from %s: %v\n%s", repo, err, out)
	}
	cmd = exec.Command("go", "build", "-o", t.Gogo, "github.com/gogo/protobuf/protoc-gen-gogo")
	cmd.Dir = t.Harness
	cmd.Env = GoEnv()
	if out, err := cmd.CombinedOutput(); err != nil {
		return nil, Infra("building protoc-gen-gogo: %v\n%s", err, out)
	}
	t.PluginSHA = fileSHA(t.Plugin)
	return t, nil
}

// ToolsFromEnv picks up the binaries the driver built (VERIF_PLUGIN, VERIF_GOGO).
func ToolsFromEnv() (*Tools, error) {
	p, g := os.Getenv("VERIF_PLUGIN"), os.Getenv("VERIF_GOGO")
	if p == "" || g == "" {
		dir := filepath.Join(ScratchRoot(), fmt.Sprintf("verif-tools-%d", os.Getpid()))
		return BuildTools(RepoDir(), dir)
	}
	return &Tools{Repo: RepoDir(), Plugin: p, Gogo: g, Harness: HarnessDir(), Scratch: filepath.Dir(p), PluginSHA: fileSHA(p)}, nil
}

type PluginResult struct {
	Exit     int
	Stdout   []byte
	Stderr   []byte
	Resp     *pluginpb.CodeGeneratorResponse // nil if stdout is empty or unparsable
	ParseErr error
	TimedOut bool
}

// Content returns the single generated file's content ("" if none).
func (r *PluginResult) Content() string {
	if r.Resp == nil || len(r.Resp.File) == 0 {
		return ""
	}
	return r.Resp.File[0].GetContent()
}

// Failed reports the "plugin failed with an error" outcome: non-zero exit or error set.
func (r *PluginResult) Failed() bool {
	return r.Exit != 0 || (r.Resp != nil && r.Resp.Error != nil)
}

func runTool(bin string, req []byte, cwd string, timeout time.Duration) (exit int, stdout, stderr []byte, timedOut bool, err error) {
	cmd := exec.Command(bin)
	cmd.Dir = cwd
	if d := os.Getenv("VERIF_COVERDIR"); d != "" {
		cmd.Env = append(os.Environ(), "GOCOVERDIR="+d)
	}
	cmd.Stdin = bytes.NewReader(req)
	var so, se bytes.Buffer
	cmd.Stdout, cmd.Stderr = &so, &se
	if err := cmd.Start(); err != nil {
		return 0, nil, nil, false, Infra("start %s: %v", bin, err)
	}
	done := make(chan error, 1)
	go func() { done <- cmd.Wait() }()
	select {
	case werr := <-done:
		if werr != nil {
			var ee *exec.ExitError
			if errors.As(werr, &ee) {
				if ee.ExitCode() < 0 { // killed by a signal: not a verdict
					return -1, so.Bytes(), se.Bytes(), false, Infra("%s killed: %v", bin, werr)
				}
				return ee.ExitCode(), so.Bytes(), se.Bytes(), false, nil
			}
			return 0, nil, nil, false, Infra("wait %s: %v", bin, werr)
		}
		return 0, so.Bytes(), se.Bytes(), false, nil
	case <-time.After(timeout):
		_ = cmd.Process.Kill()
		<-done
		return -1, so.Bytes(), se.Bytes(), true, nil
	}
}

// RunPlugin runs the plugin process on a serialized request.
func (t *Tools) RunPlugin(req []byte, cwd string) (*PluginResult, error) {
	exit, so, se, to, err := runTool(t.Plugin, req, cwd, 120*time.Second)
	if err != nil {
		return nil, err
	}
	if to {
		return nil, Infra("plugin timed out (inconclusive)")
	}
	r := &PluginResult{Exit: exit, Stdout: so, Stderr: se}
	if len(so) > 0 {
		resp := &pluginpb.CodeGeneratorResponse{}
		if err := (proto.UnmarshalOptions{DiscardUnknown: false}).Unmarshal(so, resp); err != nil {
			r.ParseErr = err
		} else {
			r.Resp = resp
		}
	}
	return r, nil
}

// RunGogo runs protoc-gen-gogo and returns name -> content.
func (t *Tools) RunGogo(req []byte) (map[string]string, error) {
	exit, so, se, to, err := runTool(t.Gogo, req, "", 120*time.Second)
	if err != nil {
		return nil, err
	}
	if to || exit != 0 {
		return nil, Infra("protoc-gen-gogo failed (exit %d, timeout %v): %s", exit, to, se)
	}
	resp := &gogoplugin.CodeGeneratorResponse{}
	if err := gogoproto.Unmarshal(so, resp); err != nil {
		return nil, Infra("protoc-gen-gogo response: %v", err)
	}
	if resp.Error != nil {
		return nil, Infra("protoc-gen-gogo error: %s", resp.GetError())
	}
	out := map[string]string{}
	for _, f := range resp.File {
		out[f.GetName()] = f.GetContent()
	}
	return out, nil
}
