package pipeline

import (
	"bytes"
	"encoding/binary"
	"encoding/json"
	"fmt"
	"os"
	"os/exec"
	"path/filepath"
	"regexp"
	"sort"
	"strings"
	"time"

	"verif/desc"
	"verif/ir"
	"verif/model"
)

// Variant is one (descriptor, configuration, layout) triple and what the tools made of it.
type Variant struct {
	Layout *ir.Layout `json:"layout"`
	File   *ir.File   `json:"file"`
	Cfg    *ir.Config `json:"config"`

	Model  *model.Model      `json:"-"`
	Plugin *PluginResult     `json:"-"`
	PB     map[string]string `json:"-"`
	TFName string            `json:"-"`
	TFText string            `json:"-"`
}

// Case is a set of variants compiled into one test binary.
type Case struct {
	Dir      string
	Variants []*Variant
	Binary   string
	// BuildErrors holds the first compiler diagnostics when the case does not build.
	BuildErrors string
}

// NewCaseDir creates a fresh scratch directory for a case.
func (t *Tools) NewCaseDir(prefix string) (string, error) {
	root := filepath.Join(ScratchRoot(), fmt.Sprintf("verif-cases-%d", os.Getpid()))
	if err := os.MkdirAll(root, 0o755); err != nil {
		return "", Infra("mkdir: %v", err)
	}
	d, err := os.MkdirTemp(root, prefix)
	if err != nil {
		return "", Infra("mkdtemp: %v", err)
	}
	return d, nil
}

func CleanupCases() {
	_ = os.RemoveAll(filepath.Join(ScratchRoot(), fmt.Sprintf("verif-cases-%d", os.Getpid())))
}

// RequestFor renders the configuration to a YAML file in dir and builds the request.
func RequestFor(f *ir.File, c *ir.Config, dir, yamlName string) ([]byte, error) {
	y := c.YAML(nil, nil)
	if err := os.WriteFile(filepath.Join(dir, yamlName), []byte(y), 0o644); err != nil {
		return nil, Infra("write config: %v", err)
	}
	fd := desc.BuildFile(f)
	return desc.MarshalRequest(desc.Request(fd, "config="+yamlName, nil, nil)), nil
}

// Generate runs the plugin and protoc-gen-gogo for one variant. The configuration
// travels entirely by YAML (C16 covers the other channel).
func (t *Tools) Generate(v *Variant, dir string) error {
	req, err := RequestFor(v.File, v.Cfg, dir, "config_"+v.Layout.Variant+".yaml")
	if err != nil {
		return err
	}
	res, err := t.RunPlugin(req, dir)
	if err != nil {
		return err
	}
	v.Plugin = res
	if res.Resp != nil && len(res.Resp.File) > 0 {
		v.TFName = res.Resp.File[0].GetName()
		v.TFText = res.Resp.File[0].GetContent()
	}
	if !v.Layout.SharedStruct {
		fd := desc.BuildFile(v.File)
		pb, err := t.RunGogo(desc.MarshalRequest(desc.RequestAll(fd, "")))
		if err != nil {
			return err
		}
		v.PB = pb
	}
	return nil
}

func sortedSuffixes(m *model.Model) []string {
	set := map[string]bool{}
	for _, r := range m.Roots {
		r.Walk(func(mm *model.Msg) {
			for _, a := range mm.Attrs {
				if a.Custom != nil {
					set[a.Custom.Suffix] = true
				}
			}
		})
	}
	var out []string
	for k := range set {
		out = append(out, k)
	}
	sort.Strings(out)
	return out
}

func localTypes(f *ir.File) string {
	var b strings.Builder
	for _, n := range ir.SortedKeys(f.CastTypes) {
		fmt.Fprintf(&b, "type %s %s\n", n, f.CastTypes[n])
	}
	for _, n := range ir.SortedKeys(f.CustomTypes) {
		fmt.Fprintf(&b, "type %s %s\n", n, f.CustomTypes[n])
	}
	return b.String()
}

func hooksSource(pkg string, v *Variant) string {
	var b strings.Builder
	fmt.Fprintf(&b, "package %s\n\nimport (\n\t\"context\"\n\n\t\"github.com/hashicorp/terraform-plugin-framework/attr\"\n\t\"github.com/hashicorp/terraform-plugin-framework/diag\"\n\t\"github.com/hashicorp/terraform-plugin-framework/tfsdk\"\n\tverifsupport \"verif/support\"\n)\n\n", pkg)
	b.WriteString("var _ context.Context\nvar _ attr.Value\nvar _ diag.Diagnostics\nvar _ tfsdk.Attribute\nvar _ = verifsupport.V\n\n")
	if !v.Layout.QualifiedTF {
		b.WriteString("type TimeType = verifsupport.TimeType\ntype TimeValue = verifsupport.TimeValue\nfunc UseTime() verifsupport.TimeType { return verifsupport.UseTime() }\n")
		b.WriteString("type DurationType = verifsupport.DurationType\ntype DurationValue = verifsupport.DurationValue\nfunc UseDuration() verifsupport.DurationType { return verifsupport.UseDuration() }\n\n")
	}
	for _, s := range sortedSuffixes(v.Model) {
		fmt.Fprintf(&b, "func GenSchema%[1]s(ctx context.Context, a tfsdk.Attribute) tfsdk.Attribute { return verifsupport.HookGenSchema(%[1]q, ctx, a) }\n", s)
		fmt.Fprintf(&b, "func CopyFrom%[1]s[T any](diags diag.Diagnostics, v attr.Value, target *T) { verifsupport.HookCopyFrom(%[1]q, diags, v, target) }\n", s)
		fmt.Fprintf(&b, "func CopyTo%[1]s[T any](diags diag.Diagnostics, field T, t attr.Type, cur attr.Value) attr.Value { return verifsupport.HookCopyTo(%[1]q, diags, field, t, cur) }\n\n", s)
	}
	return b.String()
}

func write(path, content string) error {
	if err := os.MkdirAll(filepath.Dir(path), 0o755); err != nil {
		return Infra("mkdir: %v", err)
	}
	if err := os.WriteFile(path, []byte(content), 0o644); err != nil {
		return Infra("write %s: %v", path, err)
	}
	return nil
}

func goMod(harness string) (string, string, error) {
	b, err := os.ReadFile(filepath.Join(harness, "go.mod"))
	if err != nil {
		return "", "", Infra("read harness go.mod: %v", err)
	}
	s := string(b)
	i := strings.Index(s, "require (")
	if i < 0 {
		return "", "", Infra("harness go.mod has no require block")
	}
	mod := "module " + ir.Module + "\n\ngo 1.23\n\nrequire verif v0.0.0\n\nreplace verif => " + harness + "\n\n" + s[i:]
	sum, err := os.ReadFile(filepath.Join(harness, "go.sum"))
	if err != nil {
		return "", "", Infra("read harness go.sum: %v", err)
	}
	return mod, string(sum), nil
}

// Materialise writes the Go module of a case: struct packages, generated files,
// hooks, the registry test file and the models.
func (t *Tools) Materialise(c *Case, spec interface{}) error {
	mod, sum, err := goMod(t.Harness)
	if err != nil {
		return err
	}
	if err := write(filepath.Join(c.Dir, "go.mod"), mod); err != nil {
		return err
	}
	if err := write(filepath.Join(c.Dir, "go.sum"), sum); err != nil {
		return err
	}
	var imports, regs strings.Builder
	for i, v := range c.Variants {
		l := v.Layout
		sdir := filepath.Join(c.Dir, l.StructDir)
		if !l.SharedStruct {
			for name, content := range v.PB {
				if err := write(filepath.Join(sdir, filepath.Base(name)), content); err != nil {
					return err
				}
			}
			if err := write(filepath.Join(sdir, "verif_local.go"), "package "+l.StructName+"\n\n"+localTypes(v.File)); err != nil {
				return err
			}
		}
		tdir := filepath.Join(c.Dir, l.TargetDir)
		if v.TFText != "" {
			if err := write(filepath.Join(tdir, filepath.Base(v.TFName)), v.TFText); err != nil {
				return err
			}
		}
		if err := write(filepath.Join(tdir, "verif_hooks_"+l.Variant+".go"), hooksSource(l.TargetName, v)); err != nil {
			return err
		}
		mj, _ := json.MarshalIndent(v.Model, "", " ")
		if err := write(filepath.Join(c.Dir, "model_"+l.Variant+".json"), string(mj)); err != nil {
			return err
		}
		fmt.Fprintf(&imports, "\ts%d %q\n", i, l.StructPath)
		if l.Separate {
			fmt.Fprintf(&imports, "\tt%d %q\n", i, l.TargetPath)
		}
		tq := fmt.Sprintf("s%d", i)
		if l.Separate {
			tq = fmt.Sprintf("t%d", i)
		}
		for _, r := range v.Model.Roots {
			fmt.Fprintf(&regs, "\trt.Register(&rt.Root{Variant: %q, Name: %q,\n", l.Variant, r.Name)
			fmt.Fprintf(&regs, "\t\tNew: func() interface{} { return &s%d.%s{} },\n", i, r.Name)
			fmt.Fprintf(&regs, "\t\tSchema: %s.GenSchema%s,\n", tq, r.Name)
			fmt.Fprintf(&regs, "\t\tFrom: func(ctx context.Context, o types.Object, p interface{}) diag.Diagnostics { return %s.Copy%sFromTerraform(ctx, o, p.(*s%d.%s)) },\n", tq, r.Name, i, r.Name)
			fmt.Fprintf(&regs, "\t\tTo: func(ctx context.Context, p interface{}, o *types.Object) diag.Diagnostics { return %s.Copy%sToTerraform(ctx, p.(*s%d.%s), o) },\n\t})\n", tq, r.Name, i, r.Name)
		}
	}
	main := "package m_test\n\nimport (\n\t\"context\"\n\t\"os\"\n\t\"testing\"\n\n\t\"github.com/hashicorp/terraform-plugin-framework/diag\"\n\t\"github.com/hashicorp/terraform-plugin-framework/types\"\n\t\"verif/rt\"\n" +
		imports.String() + ")\n\nvar _ context.Context\nvar _ diag.Diagnostics\nvar _ types.Object\n\nfunc TestMain(m *testing.M) {\n" + regs.String() + "\tos.Exit(m.Run())\n}\n\nfunc TestCase(t *testing.T) { rt.Run(t) }\n\nfunc FuzzCase(f *testing.F) { rt.Fuzz(f) }\n"
	if err := write(filepath.Join(c.Dir, "main_test.go"), main); err != nil {
		return err
	}
	if spec != nil {
		sj, _ := json.MarshalIndent(spec, "", " ")
		if err := write(filepath.Join(c.Dir, "spec.json"), string(sj)); err != nil {
			return err
		}
	}
	return nil
}

var errLine = regexp.MustCompile(`(?m)^([^\s:]+\.go):(\d+):(\d+): (.*)$`)

// BuildResult classifies the outcome of compiling a case.
type BuildResult struct {
	OK        bool
	Output    string
	Generated bool // some error is located in plugin-emitted code (or names a plugin-emitted symbol)
	Errors    []string
}

// Build compiles the case into a test binary.
func (t *Tools) Build(c *Case) (*BuildResult, error) {
	c.Binary = filepath.Join(c.Dir, "case.test")
	cmd := exec.Command("go", "test", "-c", "-vet=off", "-o", c.Binary, ".")
	cmd.Dir = c.Dir
	env, release := caseGoEnv()
	defer release()
	cmd.Env = env
	if lf := os.Getenv("VERIF_BUILD_TIMING"); lf != "" {
		st := time.Now()
		defer func() {
			if f, err := os.OpenFile(lf, os.O_APPEND|os.O_CREATE|os.O_WRONLY, 0o644); err == nil {
				fmt.Fprintf(f, "%d %s %.1fs\n", os.Getpid(), filepath.Base(c.Dir), time.Since(st).Seconds())
				f.Close()
			}
		}()
	}
	var out bytes.Buffer
	cmd.Stdout, cmd.Stderr = &out, &out
	if err := cmd.Start(); err != nil {
		return nil, Infra("go test -c: %v", err)
	}
	done := make(chan error, 1)
	go func() { done <- cmd.Wait() }()
	select {
	case err := <-done:
		if err == nil {
			return &BuildResult{OK: true, Output: out.String()}, nil
		}
	case <-time.After(10 * time.Minute):
		_ = cmd.Process.Kill()
		<-done
		return nil, Infra("go test -c timed out")
	}
	r := &BuildResult{Output: out.String()}
	ms := errLine.FindAllStringSubmatch(r.Output, -1)
	if len(ms) == 0 {
		return nil, Infra("go test -c failed without compiler diagnostics:\n%s", r.Output)
	}
	harnessOnly := true
	for _, m := range ms {
		base := filepath.Base(m[1])
		r.Errors = append(r.Errors, m[0])
		if strings.HasSuffix(base, "_terraform.go") || base == "main_test.go" {
			r.Generated = true
			harnessOnly = false
		}
	}
	if harnessOnly {
		return r, Infra("compile errors confined to harness-written files:\n%s", r.Output)
	}
	return r, nil
}

// RunCase runs the compiled case binary with a spec file and returns its result file.
func (t *Tools) RunCase(c *Case, specPath, outPath string, timeout time.Duration, args ...string) (string, error) {
	a := append([]string{"-test.run", "^TestCase$", "-test.count=1", "-test.timeout", "0"}, args...)
	cmd := exec.Command(c.Binary, a...)
	cmd.Dir = c.Dir
	cmd.Env = append(os.Environ(), "VERIF_SPEC="+specPath, "VERIF_OUT="+outPath)
	var out bytes.Buffer
	cmd.Stdout, cmd.Stderr = &out, &out
	if err := cmd.Start(); err != nil {
		return "", Infra("start case: %v", err)
	}
	done := make(chan error, 1)
	go func() { done <- cmd.Wait() }()
	select {
	case <-done:
		return out.String(), nil
	case <-time.After(timeout):
		_ = cmd.Process.Kill()
		<-done
		return out.String(), Infra("case binary timed out after %v (inconclusive)", timeout)
	}
}

// FuzzResult is the outcome of a native fuzz campaign on a compiled case.
type FuzzResult struct {
	Output   string
	Execs    int
	Failed   bool
	Crashers []string // files under testdata/fuzz/FuzzCase
}

var execsRe = regexp.MustCompile(`execs: (\d+)`)

var failingInputRe = regexp.MustCompile(`(?m)Failing input written to testdata/fuzz/FuzzCase/(\S+)|(?:--- FAIL: |seed corpus entry: )FuzzCase/(\S+)`)

func tailLines(s string, n int) string {
	l := strings.Split(strings.TrimRight(s, "\n"), "\n")
	if len(l) > n {
		l = l[len(l)-n:]
	}
	return strings.Join(l, "\n")
}

// FuzzCase runs `go test -fuzz` (all cores) on the case for the given duration. With corpusOnly it only
// re-runs the saved corpus entries (deterministic replay of a crasher).
func (t *Tools) FuzzCase(c *Case, specPath, fuzzOut string, fuzztime time.Duration, corpusOnly bool) (*FuzzResult, error) {
	args := []string{"test", "-vet=off", "-count=1", "-run", "^FuzzCase$", "."}
	if !corpusOnly {
		args = []string{"test", "-vet=off", "-run", "^$", "-fuzz", "^FuzzCase$", "-fuzztime", fuzztime.String(), "."}
	}
	corpus := filepath.Join(c.Dir, "testdata", "fuzz", "FuzzCase")
	if !corpusOnly {
		// Long pseudo-random seeds (fixed, from splitmix64), 8-64 KB: the byte input is rapid's stream of 64-bit
		// draws and one case of a rich schema takes several thousand of them (a stream that runs out is skipped),
		// so these start the campaign from cases like the ones the rapid search draws instead of from zero values.
		if err := os.MkdirAll(corpus, 0o755); err != nil {
			return nil, Infra("fuzz corpus: %v", err)
		}
		x := uint64(0x9e3779b97f4a7c15)
		for i := 0; i < 16; i++ {
			b := make([]byte, 8192<<(i%4))
			for j := 0; j+8 <= len(b); j += 8 {
				x += 0x9e3779b97f4a7c15
				z := x
				z = (z ^ (z >> 30)) * 0xbf58476d1ce4e5b9
				z = (z ^ (z >> 27)) * 0x94d049bb133111eb
				z ^= z >> 31
				binary.LittleEndian.PutUint64(b[j:], z)
			}
			if err := os.WriteFile(filepath.Join(corpus, fmt.Sprintf("seed-%02d", i)), []byte(fmt.Sprintf("go test fuzz v1\n[]byte(%q)\n", b)), 0o644); err != nil {
				return nil, Infra("fuzz corpus: %v", err)
			}
		}
	}
	cmd := exec.Command("go", args...)
	cmd.Dir = c.Dir
	env, release := caseGoEnv("VERIF_SPEC="+specPath, "VERIF_FUZZ_OUT="+fuzzOut)
	defer release()
	cmd.Env = env
	var out bytes.Buffer
	cmd.Stdout, cmd.Stderr = &out, &out
	if err := cmd.Start(); err != nil {
		return nil, Infra("go test -fuzz: %v", err)
	}
	done := make(chan error, 1)
	go func() { done <- cmd.Wait() }()
	var werr error
	select {
	case werr = <-done:
	case <-time.After(fuzztime + 10*time.Minute):
		_ = cmd.Process.Kill()
		<-done
		return nil, Infra("go test -fuzz did not finish")
	}
	r := &FuzzResult{Output: out.String(), Failed: werr != nil}
	for _, m := range execsRe.FindAllStringSubmatch(r.Output, -1) {
		var n int
		fmt.Sscanf(m[1], "%d", &n)
		if n > r.Execs {
			r.Execs = n
		}
	}
	if r.Failed {
		// the failing input: a new file the fuzzer wrote, or an entry of the corpus
		for _, m := range failingInputRe.FindAllStringSubmatch(r.Output, -1) {
			name := m[1]
			if name == "" {
				name = m[2]
			}
			f := filepath.Join(corpus, name)
			if _, err := os.Stat(f); err == nil {
				r.Crashers = append(r.Crashers, f)
			}
		}
		if len(r.Crashers) == 0 && !corpusOnly {
			head := r.Output
			if len(head) > 600 {
				head = head[:600]
			}
			return r, Infra("go test -fuzz failed without naming a failing input:\n%s\n[...]\n%s", head, tailLines(r.Output, 8))
		}
	}
	return r, nil
}
