package pipeline

import (
	"fmt"
	"os"
	"os/exec"
	"path/filepath"
	"sync"
)

// Every compiled case adds a few MB of packages to the Go build cache that are never needed again, and the
// Go tool only trims by age (5 days): one thorough run writes tens of GB. Case builds therefore use a private
// GOCACHE below the run's scratch directory. It is seeded with hard links from a warmed cache that only holds
// the dependencies every case shares (VERIF_GOCACHE_DEPS, prepared by the driver) and is thrown away and re-seeded
// after every recycleEvery builds. Without VERIF_GOCACHE_DEPS the environment's cache is used as it is.
const recycleEvery = 40

var caseCache struct {
	sync.RWMutex
	dir    string
	builds int
}

func seedCache(dir, deps string) {
	_ = os.RemoveAll(dir)
	if deps != "" {
		if err := exec.Command("cp", "-al", deps, dir).Run(); err == nil {
			return
		}
		_ = os.RemoveAll(dir)
		if err := exec.Command("cp", "-a", deps, dir).Run(); err == nil {
			return
		}
		_ = os.RemoveAll(dir)
	}
	_ = os.MkdirAll(dir, 0o755) // an empty cache is slow, not wrong
}

// caseGoEnv returns the environment for a case build and a function to call when the build is over.
func caseGoEnv(extra ...string) ([]string, func()) {
	deps := os.Getenv("VERIF_GOCACHE_DEPS")
	if deps == "" {
		return GoEnv(extra...), func() {}
	}
	caseCache.Lock()
	if caseCache.dir == "" || caseCache.builds >= recycleEvery {
		caseCache.dir = filepath.Join(ScratchRoot(), fmt.Sprintf("gocache-%d", os.Getpid()))
		seedCache(caseCache.dir, deps)
		caseCache.builds = 0
	}
	caseCache.builds++
	dir := caseCache.dir
	caseCache.Unlock()
	caseCache.RLock()
	return GoEnv(append([]string{"GOCACHE=" + dir}, extra...)...), caseCache.RUnlock
}
