// Package desc turns the IR into the descriptors a protoc plugin receives.
// There is no protoc in the sandbox; the conventions of protoc (json_name, map
// entry messages, oneof_decl order, SourceCodeInfo paths, extension encoding) are
// reproduced here and pinned by the fidelity test against test/test.pb.go.
package desc

import (
	"bytes"
	"compress/gzip"
	"fmt"
	"io"
	"strings"
	"sync"

	"github.com/gogo/protobuf/gogoproto"
	"github.com/gogo/protobuf/proto"
	descpb "github.com/gogo/protobuf/protoc-gen-gogo/descriptor"
	plugin "github.com/gogo/protobuf/protoc-gen-gogo/plugin"
	_ "github.com/gogo/protobuf/types"

	"verif/ir"
)

const (
	GogoProto       = "gogoproto/gogo.proto"
	DescriptorProto = "google/protobuf/descriptor.proto"
	TimestampProto  = "google/protobuf/timestamp.proto"
	DurationProto   = "google/protobuf/duration.proto"
)

func registered(name string) *descpb.FileDescriptorProto {
	gz := proto.FileDescriptor(name)
	if gz == nil {
		panic("descriptor not registered: " + name)
	}
	r, err := gzip.NewReader(bytes.NewReader(gz))
	if err != nil {
		panic(err)
	}
	b, err := io.ReadAll(r)
	if err != nil {
		panic(err)
	}
	fd := &descpb.FileDescriptorProto{}
	if err := proto.Unmarshal(b, fd); err != nil {
		panic(err)
	}
	return fd
}

// Deps returns the four dependency files under their canonical import paths.
func Deps() []*descpb.FileDescriptorProto {
	d := registered("descriptor.proto")
	d.Name = proto.String(DescriptorProto)
	g := registered("gogo.proto")
	g.Name = proto.String(GogoProto)
	g.Dependency = []string{DescriptorProto}
	ts := registered("google/protobuf/timestamp.proto")
	du := registered("google/protobuf/duration.proto")
	for _, f := range []*descpb.FileDescriptorProto{ts, du} {
		if f.Options == nil {
			f.Options = &descpb.FileOptions{}
		}
		f.Options.GoPackage = proto.String("github.com/gogo/protobuf/types")
	}
	return []*descpb.FileDescriptorProto{d, g, ts, du}
}

var scalarTypes = map[string]descpb.FieldDescriptorProto_Type{
	"double":   descpb.FieldDescriptorProto_TYPE_DOUBLE,
	"float":    descpb.FieldDescriptorProto_TYPE_FLOAT,
	"int32":    descpb.FieldDescriptorProto_TYPE_INT32,
	"int64":    descpb.FieldDescriptorProto_TYPE_INT64,
	"uint32":   descpb.FieldDescriptorProto_TYPE_UINT32,
	"uint64":   descpb.FieldDescriptorProto_TYPE_UINT64,
	"sint32":   descpb.FieldDescriptorProto_TYPE_SINT32,
	"sint64":   descpb.FieldDescriptorProto_TYPE_SINT64,
	"fixed32":  descpb.FieldDescriptorProto_TYPE_FIXED32,
	"fixed64":  descpb.FieldDescriptorProto_TYPE_FIXED64,
	"sfixed32": descpb.FieldDescriptorProto_TYPE_SFIXED32,
	"sfixed64": descpb.FieldDescriptorProto_TYPE_SFIXED64,
	"bool":     descpb.FieldDescriptorProto_TYPE_BOOL,
	"string":   descpb.FieldDescriptorProto_TYPE_STRING,
	"bytes":    descpb.FieldDescriptorProto_TYPE_BYTES,
}

// JSONName is protoc's ToJsonName: drop underscores and upper-case the following letter.
func JSONName(s string) string {
	var b strings.Builder
	up := false
	for _, r := range s {
		if r == '_' {
			up = true
			continue
		}
		if up && r >= 'a' && r <= 'z' {
			r = r - 'a' + 'A'
		}
		up = false
		b.WriteRune(r)
	}
	return b.String()
}

// mapEntryName is protoc's MapEntryName: CamelCase of field name + "Entry".
func mapEntryName(field string) string {
	var b strings.Builder
	up := true
	for _, r := range field {
		if r == '_' {
			up = true
			continue
		}
		if up && r >= 'a' && r <= 'z' {
			r = r - 'a' + 'A'
		}
		up = false
		b.WriteRune(r)
	}
	return b.String() + "Entry"
}

func setExt(opts **descpb.FieldOptions, ext *proto.ExtensionDesc, v interface{}) {
	if *opts == nil {
		*opts = &descpb.FieldOptions{}
	}
	if err := proto.SetExtension(*opts, ext, v); err != nil {
		panic(err)
	}
}

func typeRef(pkg, name string) *string {
	if pkg == "" {
		return proto.String("." + name)
	}
	return proto.String("." + pkg + "." + name)
}

// applyType sets type/type_name/std options for a value position (singular, element or map value).
func applyType(fd *descpb.FieldDescriptorProto, pkg string, f *ir.Field) {
	switch f.Kind {
	case ir.KEnum:
		fd.Type = descpb.FieldDescriptorProto_TYPE_ENUM.Enum()
		fd.TypeName = typeRef(pkg, f.Type)
	case ir.KMessage:
		fd.Type = descpb.FieldDescriptorProto_TYPE_MESSAGE.Enum()
		fd.TypeName = typeRef(pkg, f.Type)
	case ir.KGroup:
		fd.Type = descpb.FieldDescriptorProto_TYPE_GROUP.Enum()
		fd.TypeName = typeRef(pkg, f.Type)
	case ir.KTimestamp:
		fd.Type = descpb.FieldDescriptorProto_TYPE_MESSAGE.Enum()
		fd.TypeName = proto.String(".google.protobuf.Timestamp")
	case ir.KDuration:
		fd.Type = descpb.FieldDescriptorProto_TYPE_MESSAGE.Enum()
		fd.TypeName = proto.String(".google.protobuf.Duration")
	default:
		t, ok := scalarTypes[f.Kind]
		if !ok {
			panic("unknown kind " + f.Kind)
		}
		fd.Type = t.Enum()
	}
}

// applyOptions sets gogo options. protoc copies the options of a map field to the
// field itself (not to the entry's value field); gogo reads them from the field.
func applyOptions(fd *descpb.FieldDescriptorProto, f *ir.Field) {
	// Order of SetExtension calls is irrelevant: extensions are encoded sorted by number.
	if f.Nullable != nil {
		setExt(&fd.Options, gogoproto.E_Nullable, f.Nullable)
	}
	if f.Embed {
		setExt(&fd.Options, gogoproto.E_Embed, proto.Bool(true))
	}
	if f.CustomType != "" {
		setExt(&fd.Options, gogoproto.E_Customtype, proto.String(f.CustomType))
	}
	if f.JSONTag != nil {
		setExt(&fd.Options, gogoproto.E_Jsontag, f.JSONTag)
	}
	if f.CastType != "" {
		setExt(&fd.Options, gogoproto.E_Casttype, proto.String(f.CastType))
	}
	if f.Kind == ir.KTimestamp && !f.NoStd {
		setExt(&fd.Options, gogoproto.E_Stdtime, proto.Bool(true))
	}
	if (f.Kind == ir.KDuration && !f.NoStd) || f.StdDurationOnInt {
		setExt(&fd.Options, gogoproto.E_Stdduration, proto.Bool(true))
	}
}

func loc(path []int32, c ir.Comments) *descpb.SourceCodeInfo_Location {
	l := &descpb.SourceCodeInfo_Location{Path: path, Span: []int32{0, 0, 0}}
	if c.Leading != "" {
		l.LeadingComments = proto.String(c.Leading)
	}
	if c.Trailing != "" {
		l.TrailingComments = proto.String(c.Trailing)
	}
	l.LeadingDetachedComments = append(l.LeadingDetachedComments, c.Detached...)
	return l
}

// BuildMessage builds one DescriptorProto and the SourceCodeInfo locations below msgPath.
func BuildMessage(pkg string, m *ir.Message, msgPath []int32) (*descpb.DescriptorProto, []*descpb.SourceCodeInfo_Location) {
	d := &descpb.DescriptorProto{Name: proto.String(m.Name)}
	var locs []*descpb.SourceCodeInfo_Location
	locs = append(locs, loc(msgPath, m.Comment))
	oneofs := m.OneofNames()
	oneofIdx := map[string]int32{}
	for i, n := range oneofs {
		oneofIdx[n] = int32(i)
		d.OneofDecl = append(d.OneofDecl, &descpb.OneofDescriptorProto{Name: proto.String(n)})
	}
	full := m.Name
	if pkg != "" {
		full = pkg + "." + m.Name
	}
	for i, f := range m.Fields {
		fd := &descpb.FieldDescriptorProto{
			Name:     proto.String(f.Name),
			Number:   proto.Int32(f.Number),
			JsonName: proto.String(JSONName(f.Name)),
		}
		switch f.Card {
		case ir.Single:
			fd.Label = descpb.FieldDescriptorProto_LABEL_OPTIONAL.Enum()
			applyType(fd, pkg, f)
		case ir.Repeated:
			fd.Label = descpb.FieldDescriptorProto_LABEL_REPEATED.Enum()
			applyType(fd, pkg, f)
		case ir.Map:
			fd.Label = descpb.FieldDescriptorProto_LABEL_REPEATED.Enum()
			fd.Type = descpb.FieldDescriptorProto_TYPE_MESSAGE.Enum()
			en := mapEntryName(f.Name)
			fd.TypeName = proto.String("." + full + "." + en)
			keyKind := f.MapKey
			if keyKind == "" {
				keyKind = "string"
			}
			key := &descpb.FieldDescriptorProto{
				Name: proto.String("key"), Number: proto.Int32(1), JsonName: proto.String("key"),
				Label: descpb.FieldDescriptorProto_LABEL_OPTIONAL.Enum(),
				Type:  scalarTypes[keyKind].Enum(),
			}
			val := &descpb.FieldDescriptorProto{
				Name: proto.String("value"), Number: proto.Int32(2), JsonName: proto.String("value"),
				Label: descpb.FieldDescriptorProto_LABEL_OPTIONAL.Enum(),
			}
			applyType(val, pkg, f)
			d.NestedType = append(d.NestedType, &descpb.DescriptorProto{
				Name:    proto.String(en),
				Field:   []*descpb.FieldDescriptorProto{key, val},
				Options: &descpb.MessageOptions{MapEntry: proto.Bool(true)},
			})
		default:
			panic("bad cardinality " + f.Card)
		}
		applyOptions(fd, f)
		if f.Oneof != "" {
			fd.OneofIndex = proto.Int32(oneofIdx[f.Oneof])
		}
		d.Field = append(d.Field, fd)
		p := append(append([]int32{}, msgPath...), 2, int32(i))
		locs = append(locs, loc(p, f.Comment))
	}
	return d, locs
}

// BuildFile builds the FileDescriptorProto of the file to generate. Declarations marked InDep go into an imported
// file of the same package (BuildDepFile), which Request places in front of it.
func BuildFile(f *ir.File) *descpb.FileDescriptorProto {
	fd := buildFile(f, f.Name, false)
	if f.HasDep() {
		dep := buildFile(f, f.DepName(), true)
		fd.Dependency = append(fd.Dependency, dep.GetName())
		depMu.Lock()
		depOf[fd] = dep
		depMu.Unlock()
	}
	return fd
}

var (
	depMu sync.Mutex
	depOf = map[*descpb.FileDescriptorProto]*descpb.FileDescriptorProto{}
)

// DepFile returns the imported file that belongs to a descriptor built by BuildFile (nil if none).
func DepFile(fd *descpb.FileDescriptorProto) *descpb.FileDescriptorProto {
	depMu.Lock()
	defer depMu.Unlock()
	return depOf[fd]
}

func buildFile(f *ir.File, name string, dep bool) *descpb.FileDescriptorProto {
	fd := &descpb.FileDescriptorProto{
		Name:       proto.String(name),
		Syntax:     proto.String("proto3"),
		Dependency: []string{GogoProto, TimestampProto, DurationProto},
		Options:    &descpb.FileOptions{},
	}
	if f.Package != "" {
		fd.Package = proto.String(f.Package)
	}
	if f.GoPackage != "" {
		fd.Options.GoPackage = proto.String(f.GoPackage)
		if alt := f.AltGoPackage(); dep && f.DepAltSpelling && alt != "" {
			fd.Options.GoPackage = proto.String(alt)
		}
	}
	mustSet := func(ext *proto.ExtensionDesc, v bool) {
		if err := proto.SetExtension(fd.Options, ext, proto.Bool(v)); err != nil {
			panic(err)
		}
	}
	mustSet(gogoproto.E_GoprotoGettersAll, f.Getters)
	mustSet(gogoproto.E_MarshalerAll, false)
	mustSet(gogoproto.E_UnmarshalerAll, false)
	sci := &descpb.SourceCodeInfo{}
	for _, e := range f.Enums {
		if e.InDep != dep {
			continue
		}
		ed := &descpb.EnumDescriptorProto{Name: proto.String(e.Name)}
		for _, v := range e.Values {
			ed.Value = append(ed.Value, &descpb.EnumValueDescriptorProto{Name: proto.String(v.Name), Number: proto.Int32(v.Number)})
		}
		fd.EnumType = append(fd.EnumType, ed)
	}
	i := 0
	for _, m := range f.Messages {
		if m.InDep != dep {
			continue
		}
		d, locs := BuildMessage(f.Package, m, []int32{4, int32(i)})
		fd.MessageType = append(fd.MessageType, d)
		sci.Location = append(sci.Location, locs...)
		i++
	}
	fd.SourceCodeInfo = sci
	return fd
}

// Request assembles a CodeGeneratorRequest: deps, optional extra files, the file to generate.
// extraBefore/extraAfter are unrelated files placed before/after f in proto_file.
func Request(f *descpb.FileDescriptorProto, param string, extraBefore, extraAfter []*descpb.FileDescriptorProto) *plugin.CodeGeneratorRequest {
	req := &plugin.CodeGeneratorRequest{FileToGenerate: []string{f.GetName()}}
	if param != "" {
		req.Parameter = proto.String(param)
	}
	req.ProtoFile = append(req.ProtoFile, Deps()...)
	req.ProtoFile = append(req.ProtoFile, extraBefore...)
	if dep := DepFile(f); dep != nil {
		req.ProtoFile = append(req.ProtoFile, dep)
	}
	req.ProtoFile = append(req.ProtoFile, f)
	req.ProtoFile = append(req.ProtoFile, extraAfter...)
	return req
}

// RequestAll is Request with the imported file of f (if any) generated as well: what protoc-gen-gogo needs to
// emit every struct of the package.
func RequestAll(f *descpb.FileDescriptorProto, param string) *plugin.CodeGeneratorRequest {
	req := Request(f, param, nil, nil)
	if dep := DepFile(f); dep != nil {
		req.FileToGenerate = []string{dep.GetName(), f.GetName()}
	}
	return req
}

func MarshalRequest(req *plugin.CodeGeneratorRequest) []byte {
	b, err := proto.Marshal(req)
	if err != nil {
		panic(fmt.Sprintf("marshal request: %v", err))
	}
	return b
}
