package desc

import (
	"bytes"
	"compress/gzip"
	"fmt"
	"go/ast"
	"go/parser"
	"go/token"
	"io"
	"os"
	"strconv"
	"strings"

	"github.com/gogo/protobuf/gogoproto"
	"github.com/gogo/protobuf/proto"
	descpb "github.com/gogo/protobuf/protoc-gen-gogo/descriptor"

	"verif/ir"
)

// EmbeddedDescriptor recovers the FileDescriptorProto protoc produced for a .proto file from the gzipped
// descriptor embedded in its .pb.go file (var fileDescriptor_… = []byte{…}).
func EmbeddedDescriptor(pbgo string) (*descpb.FileDescriptorProto, error) {
	src, err := os.ReadFile(pbgo)
	if err != nil {
		return nil, err
	}
	f, err := parser.ParseFile(token.NewFileSet(), pbgo, src, 0)
	if err != nil {
		return nil, err
	}
	var gz []byte
	var perr error
	ast.Inspect(f, func(n ast.Node) bool {
		vs, ok := n.(*ast.ValueSpec)
		if !ok || len(vs.Names) != 1 || !strings.HasPrefix(vs.Names[0].Name, "fileDescriptor_") || len(vs.Values) != 1 {
			return true
		}
		cl, ok := vs.Values[0].(*ast.CompositeLit)
		if !ok {
			return true
		}
		for _, e := range cl.Elts {
			bl, ok := e.(*ast.BasicLit)
			if !ok {
				perr = fmt.Errorf("unexpected element in descriptor literal")
				return false
			}
			v, err := strconv.ParseUint(bl.Value, 0, 8)
			if err != nil {
				perr = err
				return false
			}
			gz = append(gz, byte(v))
		}
		return false
	})
	if perr != nil {
		return nil, perr
	}
	if gz == nil {
		return nil, fmt.Errorf("embedded descriptor not found in %s", pbgo)
	}
	r, err := gzip.NewReader(bytes.NewReader(gz))
	if err != nil {
		return nil, err
	}
	b, err := io.ReadAll(r)
	if err != nil {
		return nil, err
	}
	fd := &descpb.FileDescriptorProto{}
	if err := proto.Unmarshal(b, fd); err != nil {
		return nil, err
	}
	return fd, nil
}

var kindOf = func() map[descpb.FieldDescriptorProto_Type]string {
	m := map[descpb.FieldDescriptorProto_Type]string{}
	for k, v := range scalarTypes {
		m[v] = k
	}
	return m
}()

func strExt(fd *descpb.FieldDescriptorProto, e *proto.ExtensionDesc) *string {
	if fd.Options == nil {
		return nil
	}
	v, err := proto.GetExtension(fd.Options, e)
	if err != nil {
		return nil
	}
	return v.(*string)
}

func boolExt(fd *descpb.FieldDescriptorProto, e *proto.ExtensionDesc) *bool {
	if fd.Options == nil {
		return nil
	}
	v, err := proto.GetExtension(fd.Options, e)
	if err != nil {
		return nil
	}
	return v.(*bool)
}

func last(s string) string { return s[strings.LastIndex(s, ".")+1:] }

// ToIR maps a protoc-made message descriptor to the IR (the inverse of BuildMessage).
func ToIR(d *descpb.DescriptorProto) (*ir.Message, error) {
	m := &ir.Message{Name: d.GetName()}
	entries := map[string]*descpb.DescriptorProto{}
	for _, n := range d.NestedType {
		if n.GetOptions().GetMapEntry() {
			entries[n.GetName()] = n
		} else {
			return nil, fmt.Errorf("nested declaration %s: outside the fragment", n.GetName())
		}
	}
	setType := func(f *ir.Field, fd *descpb.FieldDescriptorProto) {
		switch fd.GetType() {
		case descpb.FieldDescriptorProto_TYPE_MESSAGE:
			switch fd.GetTypeName() {
			case ".google.protobuf.Timestamp":
				f.Kind = ir.KTimestamp
			case ".google.protobuf.Duration":
				f.Kind = ir.KDuration
			default:
				f.Kind, f.Type = ir.KMessage, last(fd.GetTypeName())
			}
		case descpb.FieldDescriptorProto_TYPE_ENUM:
			f.Kind, f.Type = ir.KEnum, last(fd.GetTypeName())
		default:
			f.Kind = kindOf[fd.GetType()]
		}
	}
	for _, fd := range d.Field {
		f := &ir.Field{Name: fd.GetName(), Number: fd.GetNumber()}
		if fd.OneofIndex != nil {
			f.Oneof = d.OneofDecl[fd.GetOneofIndex()].GetName()
		}
		if fd.GetLabel() == descpb.FieldDescriptorProto_LABEL_REPEATED {
			f.Card = ir.Repeated
		}
		if e := entries[last(fd.GetTypeName())]; e != nil && fd.GetType() == descpb.FieldDescriptorProto_TYPE_MESSAGE {
			f.Card = ir.Map
			f.MapKey = kindOf[e.Field[0].GetType()]
			if f.MapKey == "string" {
				f.MapKey = ""
			}
			setType(f, e.Field[1])
		} else {
			setType(f, fd)
		}
		f.Nullable = boolExt(fd, gogoproto.E_Nullable)
		if b := boolExt(fd, gogoproto.E_Embed); b != nil && *b {
			f.Embed = true
		}
		f.JSONTag = strExt(fd, gogoproto.E_Jsontag)
		if s := strExt(fd, gogoproto.E_Casttype); s != nil {
			f.CastType = *s
		}
		if s := strExt(fd, gogoproto.E_Customtype); s != nil {
			f.CustomType = *s
		}
		std := boolExt(fd, gogoproto.E_Stdtime) != nil || boolExt(fd, gogoproto.E_Stdduration) != nil
		switch {
		case (f.Kind == ir.KTimestamp || f.Kind == ir.KDuration) && !std:
			f.NoStd = true
		case f.Kind == "int64" && boolExt(fd, gogoproto.E_Stdduration) != nil:
			f.StdDurationOnInt = true
		}
		m.Fields = append(m.Fields, f)
	}
	return m, nil
}
