package desc

import (
	"bytes"
	"compress/gzip"
	"go/ast"
	"go/parser"
	"go/token"
	"io"
	"os"
	"path/filepath"
	"strconv"
	"strings"
	"testing"

	"github.com/gogo/protobuf/gogoproto"
	"github.com/gogo/protobuf/proto"
	descpb "github.com/gogo/protobuf/protoc-gen-gogo/descriptor"

	"verif/ir"
)

// The descriptor that real protoc produced for test/test.proto is embedded (gzipped) in
// test/test.pb.go. TestFidelity recovers it, maps every message to the IR and rebuilds it with
// BuildMessage: the result must be identical to what protoc emitted (json_name, map entry
// messages, oneof_decl order, labels, type names, gogo options as extensions).

func embeddedDescriptor(t *testing.T) *descpb.FileDescriptorProto {
	repo := os.Getenv("VERIF_REPO")
	if repo == "" {
		repo = "/repo"
	}
	src, err := os.ReadFile(filepath.Join(repo, "test", "test.pb.go"))
	if err != nil {
		t.Skipf("no test.pb.go: %v", err)
	}
	f, err := parser.ParseFile(token.NewFileSet(), "test.pb.go", src, 0)
	if err != nil {
		t.Fatal(err)
	}
	var gz []byte
	ast.Inspect(f, func(n ast.Node) bool {
		vs, ok := n.(*ast.ValueSpec)
		if !ok || len(vs.Names) != 1 || !strings.HasPrefix(vs.Names[0].Name, "fileDescriptor_") || len(vs.Values) != 1 {
			return true
		}
		cl, ok := vs.Values[0].(*ast.CompositeLit)
		if !ok {
			return true
		}
		for _, e := range cl.Elts {
			bl := e.(*ast.BasicLit)
			v, err := strconv.ParseUint(bl.Value, 0, 8)
			if err != nil {
				t.Fatal(err)
			}
			gz = append(gz, byte(v))
		}
		return false
	})
	if gz == nil {
		t.Fatal("embedded descriptor not found")
	}
	r, err := gzip.NewReader(bytes.NewReader(gz))
	if err != nil {
		t.Fatal(err)
	}
	b, err := io.ReadAll(r)
	if err != nil {
		t.Fatal(err)
	}
	fd := &descpb.FileDescriptorProto{}
	if err := proto.Unmarshal(b, fd); err != nil {
		t.Fatal(err)
	}
	return fd
}

var kindOf = func() map[descpb.FieldDescriptorProto_Type]string {
	m := map[descpb.FieldDescriptorProto_Type]string{}
	for k, v := range scalarTypes {
		m[v] = k
	}
	return m
}()

func strExt(fd *descpb.FieldDescriptorProto, e *proto.ExtensionDesc) *string {
	if fd.Options == nil {
		return nil
	}
	v, err := proto.GetExtension(fd.Options, e)
	if err != nil {
		return nil
	}
	return v.(*string)
}

func boolExt(fd *descpb.FieldDescriptorProto, e *proto.ExtensionDesc) *bool {
	if fd.Options == nil {
		return nil
	}
	v, err := proto.GetExtension(fd.Options, e)
	if err != nil {
		return nil
	}
	return v.(*bool)
}

func last(s string) string { return s[strings.LastIndex(s, ".")+1:] }

// toIR maps a protoc-made message descriptor to the IR (the inverse of BuildMessage).
func toIR(t *testing.T, d *descpb.DescriptorProto) *ir.Message {
	m := &ir.Message{Name: d.GetName()}
	entries := map[string]*descpb.DescriptorProto{}
	for _, n := range d.NestedType {
		if n.GetOptions().GetMapEntry() {
			entries[n.GetName()] = n
		} else {
			t.Fatalf("nested declaration %s: outside the fragment", n.GetName())
		}
	}
	setType := func(f *ir.Field, fd *descpb.FieldDescriptorProto) {
		switch fd.GetType() {
		case descpb.FieldDescriptorProto_TYPE_MESSAGE:
			switch fd.GetTypeName() {
			case ".google.protobuf.Timestamp":
				f.Kind = ir.KTimestamp
			case ".google.protobuf.Duration":
				f.Kind = ir.KDuration
			default:
				f.Kind, f.Type = ir.KMessage, last(fd.GetTypeName())
			}
		case descpb.FieldDescriptorProto_TYPE_ENUM:
			f.Kind, f.Type = ir.KEnum, last(fd.GetTypeName())
		default:
			f.Kind = kindOf[fd.GetType()]
		}
	}
	for _, fd := range d.Field {
		f := &ir.Field{Name: fd.GetName(), Number: fd.GetNumber()}
		if fd.OneofIndex != nil {
			f.Oneof = d.OneofDecl[fd.GetOneofIndex()].GetName()
		}
		if fd.GetLabel() == descpb.FieldDescriptorProto_LABEL_REPEATED {
			f.Card = ir.Repeated
		}
		if e := entries[last(fd.GetTypeName())]; e != nil && fd.GetType() == descpb.FieldDescriptorProto_TYPE_MESSAGE {
			f.Card = ir.Map
			f.MapKey = kindOf[e.Field[0].GetType()]
			if f.MapKey == "string" {
				f.MapKey = ""
			}
			setType(f, e.Field[1])
		} else {
			setType(f, fd)
		}
		f.Nullable = boolExt(fd, gogoproto.E_Nullable)
		if b := boolExt(fd, gogoproto.E_Embed); b != nil && *b {
			f.Embed = true
		}
		f.JSONTag = strExt(fd, gogoproto.E_Jsontag)
		if s := strExt(fd, gogoproto.E_Casttype); s != nil {
			f.CastType = *s
		}
		if s := strExt(fd, gogoproto.E_Customtype); s != nil {
			f.CustomType = *s
		}
		std := boolExt(fd, gogoproto.E_Stdtime) != nil || boolExt(fd, gogoproto.E_Stdduration) != nil
		switch {
		case (f.Kind == ir.KTimestamp || f.Kind == ir.KDuration) && !std:
			f.NoStd = true
		case f.Kind == "int64" && boolExt(fd, gogoproto.E_Stdduration) != nil:
			f.StdDurationOnInt = true
		}
		m.Fields = append(m.Fields, f)
	}
	return m
}

func TestFidelity(t *testing.T) {
	fd := embeddedDescriptor(t)
	if len(fd.MessageType) < 5 {
		t.Fatalf("unexpectedly small descriptor")
	}
	checked := 0
	for i, d := range fd.MessageType {
		m := toIR(t, d)
		got, _ := BuildMessage(fd.GetPackage(), m, []int32{4, int32(i)})
		want := proto.Clone(d).(*descpb.DescriptorProto)
		if !proto.Equal(got, want) {
			// find the first differing field for a readable message
			for j := range want.Field {
				if j >= len(got.Field) || !proto.Equal(got.Field[j], want.Field[j]) {
					t.Fatalf("message %s field %d: built\n%s\nprotoc\n%s", d.GetName(), j, proto.MarshalTextString(got.Field[j]), proto.MarshalTextString(want.Field[j]))
				}
			}
			t.Fatalf("message %s: built descriptor differs from protoc's:\n%s\nvs\n%s", d.GetName(), proto.MarshalTextString(got), proto.MarshalTextString(want))
		}
		// byte-level: the encodings (extension order included) agree
		gb, _ := proto.Marshal(got)
		wb, _ := proto.Marshal(want)
		if !bytes.Equal(gb, wb) {
			t.Fatalf("message %s: equal descriptors but different encodings", d.GetName())
		}
		checked += len(d.Field)
	}
	t.Logf("rebuilt %d messages / %d fields of protoc's descriptor for test.proto identically", len(fd.MessageType), checked)
}
