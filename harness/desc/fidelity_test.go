package desc

import (
	"bytes"
	"os"
	"path/filepath"
	"testing"

	"github.com/gogo/protobuf/proto"
	descpb "github.com/gogo/protobuf/protoc-gen-gogo/descriptor"
)

// The descriptor that real protoc produced for test/test.proto is embedded (gzipped) in
// test/test.pb.go. TestFidelity recovers it, maps every message to the IR and rebuilds it with
// BuildMessage: the result must be identical to what protoc emitted (json_name, map entry
// messages, oneof_decl order, labels, type names, gogo options as extensions).

func embeddedDescriptor(t *testing.T) *descpb.FileDescriptorProto {
	repo := os.Getenv("VERIF_REPO")
	if repo == "" {
		repo = "/repo"
	}
	fd, err := EmbeddedDescriptor(filepath.Join(repo, "test", "test.pb.go"))
	if err != nil {
		t.Skipf("no usable test.pb.go: %v", err)
	}
	return fd
}

func TestFidelity(t *testing.T) {
	fd := embeddedDescriptor(t)
	if len(fd.MessageType) < 5 {
		t.Fatalf("unexpectedly small descriptor")
	}
	checked := 0
	for i, d := range fd.MessageType {
		m, err := ToIR(d)
		if err != nil {
			t.Fatal(err)
		}
		got, _ := BuildMessage(fd.GetPackage(), m, []int32{4, int32(i)})
		want := proto.Clone(d).(*descpb.DescriptorProto)
		if !proto.Equal(got, want) {
			// find the first differing field for a readable message
			for j := range want.Field {
				if j >= len(got.Field) || !proto.Equal(got.Field[j], want.Field[j]) {
					t.Fatalf("message %s field %d: built\n%s\nprotoc\n%s", d.GetName(), j, proto.MarshalTextString(got.Field[j]), proto.MarshalTextString(want.Field[j]))
				}
			}
			t.Fatalf("message %s: built descriptor differs from protoc's:\n%s\nvs\n%s", d.GetName(), proto.MarshalTextString(got), proto.MarshalTextString(want))
		}
		// byte-level: the encodings (extension order included) agree
		gb, _ := proto.Marshal(got)
		wb, _ := proto.Marshal(want)
		if !bytes.Equal(gb, wb) {
			t.Fatalf("message %s: equal descriptors but different encodings", d.GetName())
		}
		checked += len(d.Field)
	}
	t.Logf("rebuilt %d messages / %d fields of protoc's descriptor for test.proto identically", len(fd.MessageType), checked)
}
