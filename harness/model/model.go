// Package model computes the reference model M(S,K) of DESIGN.md §4: what the
// generator should have decided for a descriptor and a configuration, written
// from the property statements and the README, never from the plugin's code.
package model

import (
	"fmt"
	"strings"

	"github.com/stoewer/go-strcase"

	"verif/ir"
)

// Terraform-side type tags.
const (
	TInt64    = "int64"
	TFloat64  = "float64"
	TBool     = "bool"
	TString   = "string"
	TTime     = "time"
	TDuration = "duration"
	TObject   = "object"
	TCustom   = "custom"
)

type Custom struct {
	TypeName string `json:"type_name"`
	Suffix   string `json:"suffix"`
	ViaProto bool   `json:"via_proto"`
}

// Attr is one expected Terraform attribute of a (flattened) message.
type Attr struct {
	Name string `json:"name"`
	// Chain is the chain of proto field names leading from the Go struct of the
	// enclosing flattened message to the field (embedded fields first).
	Chain []string `json:"chain"`
	// ChainNullable[i] tells whether Chain[i] (an embedded message) is a pointer.
	EmbedNullable   []bool  `json:"embed_nullable,omitempty"`
	Owner           string  `json:"owner"` // proto message that declares the field
	Card            string  `json:"card,omitempty"`
	Kind            string  `json:"kind"` // ir kind; "placeholder" for empty messages
	GoScalar        string  `json:"go_scalar,omitempty"`
	TF              string  `json:"tf"`
	Msg             *Msg    `json:"msg,omitempty"`
	Oneof           string  `json:"oneof,omitempty"`
	Pointer         bool    `json:"pointer,omitempty"` // value/element is a pointer on the Go side
	Cast            string  `json:"cast,omitempty"`
	Custom          *Custom `json:"custom,omitempty"`
	ByValueTemporal bool    `json:"by_value_temporal,omitempty"` // time/duration held by value (always rendered)

	Required      bool     `json:"required,omitempty"`
	Computed      bool     `json:"computed,omitempty"`
	Sensitive     bool     `json:"sensitive,omitempty"`
	Validators    []string `json:"validators,omitempty"`
	PlanModifiers []string `json:"plan_modifiers,omitempty"`
	Description   string   `json:"description"`

	FullKey string `json:"full_key,omitempty"` // Root.Field.Sub ("" when the README does not fix it)
	TypeKey string `json:"type_key"`           // Message.Field
	// EmbedKey: <EmbeddingMessage>.<Field> for a field that is flattened into the embedding message (the
	// promoted field is a field of that message too: Message.Field form; for a root message also the full path)
	EmbedKey string `json:"embed_key,omitempty"`
	// DiagSuffix is what a diagnostic about this field must at least contain.
	DiagSuffix string `json:"diag_suffix"`
	DiagFull   string `json:"diag_full,omitempty"`
}

type Excluded struct {
	Chain   []string `json:"chain"`
	FullKey string   `json:"full_key,omitempty"`
	TypeKey string   `json:"type_key"`
}

type Msg struct {
	Name     string             `json:"name"`
	Path     string             `json:"path,omitempty"`
	Empty    bool               `json:"empty,omitempty"`
	Attrs    []*Attr            `json:"attrs"`
	Injected []ir.InjectedField `json:"injected,omitempty"`
	Excluded []Excluded         `json:"excluded,omitempty"`
	// Oneofs lists the oneof groups visible in this flattened message:
	// group name -> holder chain (embedded fields) is in the member attrs.
	Oneofs []string `json:"oneofs,omitempty"`
}

type TimeCfg struct {
	Ctor bool `json:"ctor"`
}

type Model struct {
	Roots        []*Msg `json:"roots"`
	TimeCtor     bool   `json:"time_ctor"`
	DurationCtor bool   `json:"duration_ctor"`
	Sort         bool   `json:"sort"`
}

func (m *Model) Root(name string) *Msg {
	for _, r := range m.Roots {
		if r.Name == name {
			return r
		}
	}
	return nil
}

var goScalar = map[string]string{
	"double": "float64", "float": "float32", "int32": "int32", "int64": "int64", "uint32": "uint32", "uint64": "uint64",
	"sint32": "int32", "sint64": "int64", "fixed32": "uint32", "fixed64": "uint64", "sfixed32": "int32", "sfixed64": "int64",
	"bool": "bool", "string": "string", "bytes": "[]byte",
}

func GoScalar(kind string) string { return goScalar[kind] }

func tfOf(kind string) string {
	switch kind {
	case "double", "float":
		return TFloat64
	case "bool":
		return TBool
	case "string", "bytes":
		return TString
	case ir.KEnum:
		return TInt64
	case ir.KTimestamp:
		return TTime
	case ir.KDuration:
		return TDuration
	case ir.KMessage:
		return TObject
	}
	return TInt64
}

// ToSingleLine: "the field's leading proto comment flattened to one trimmed line".
// The check compares white-space-collapsed forms, so only the token sequence matters.
func Flatten(comment string) string {
	return strings.Join(strings.Fields(comment), " ")
}

type builder struct {
	f *ir.File
	c *ir.Config
}

func has(list []string, keys ...string) bool {
	for _, k := range keys {
		if k != "" && ir.Has(list, k) {
			return true
		}
	}
	return false
}

func lookup[V any](m map[string]V, keys ...string) (V, bool) {
	for _, k := range keys {
		if k == "" {
			continue
		}
		if v, ok := m[k]; ok {
			return v, true
		}
	}
	var z V
	return z, false
}

// IsDurationCast reports whether a cast scalar is a duration per configuration.
func IsDurationCast(cast string, c *ir.Config) bool {
	return cast == "time.Duration" || (c.DurationCustomType != "" && cast == c.DurationCustomType)
}

// Build computes M for every selected root type.
func Build(f *ir.File, c *ir.Config) (*Model, error) {
	b := &builder{f: f, c: c}
	m := &Model{Sort: c.Sort}
	if c.TimeType != nil {
		m.TimeCtor = c.TimeType.TypeConstructor != ""
	}
	if c.DurationType != nil {
		m.DurationCtor = c.DurationType.TypeConstructor != ""
	}
	for _, msg := range f.Messages {
		if !ir.Has(c.Types, msg.Name) {
			continue
		}
		r, err := b.msg(msg, msg.Name, msg.Name, 0)
		if err != nil {
			return nil, err
		}
		m.Roots = append(m.Roots, r)
	}
	return m, nil
}

// msg builds the flattened view of message d occurring at path (full path, or ""
// when not fixed). basePath is the prefix for full keys of its fields.
func (b *builder) msg(d *ir.Message, path string, keyBase string, depth int) (*Msg, error) {
	if depth > 12 {
		return nil, fmt.Errorf("message graph too deep (cycle?) at %s", d.Name)
	}
	out := &Msg{Name: d.Name, Path: path}
	if len(d.Fields) == 0 {
		out.Empty = true
		out.Attrs = []*Attr{{Name: "active", Kind: "placeholder", TF: TBool, Computed: true, Owner: d.Name,
			Description: "Automatically generated field preventing empty message errors", TypeKey: d.Name + ".active", DiagSuffix: "active"}}
		if path != "" {
			out.Injected = b.c.InjectedFields[path]
		}
		return out, nil
	}
	if path != "" {
		out.Injected = b.c.InjectedFields[path]
	}
	if err := b.fields(out, d, keyBase, nil, nil, depth); err != nil {
		return nil, err
	}
	return out, nil
}

func (b *builder) fields(out *Msg, d *ir.Message, keyBase string, chain []string, embedNullable []bool, depth int, embedBase ...string) error {
	eb := ""
	if len(embedBase) > 0 {
		eb = embedBase[0]
	}
	for _, on := range d.OneofNames() {
		out.Oneofs = append(out.Oneofs, on)
	}
	for _, fl := range d.Fields {
		full := ""
		if keyBase != "" {
			full = keyBase + "." + fl.Name
		}
		typeKey := d.Name + "." + fl.Name
		alt := ""
		if eb != "" {
			alt = eb + "." + fl.Name
		}
		ch := append(append([]string{}, chain...), fl.Name)
		if has(b.c.ExcludeFields, full, typeKey, alt) {
			out.Excluded = append(out.Excluded, Excluded{Chain: ch, FullKey: full, TypeKey: typeKey})
			continue
		}
		if fl.Embed {
			sub := b.f.Msg(fl.Type)
			if sub == nil {
				return fmt.Errorf("unknown message %s", fl.Type)
			}
			// Children of an embedded message are flattened into the embedding message. The
			// README does not say how a full path addresses them (the code re-bases the
			// path at the embedding message), so only the Message.Field form is modelled.
			if len(sub.Fields) == 0 {
				// an embedded message without fields: its placeholder attribute is flattened into the embedding message
				out.Attrs = append(out.Attrs, &Attr{Name: "active", Kind: "placeholder", TF: TBool, Computed: true, Owner: sub.Name,
					Description: "Automatically generated field preventing empty message errors", TypeKey: sub.Name + ".active", DiagSuffix: "active"})
				continue
			}
			childBase := ""
			en := append(append([]bool{}, embedNullable...), fl.IsNullable())
			if err := b.fields(out, sub, childBase, ch, en, depth+1, d.Name); err != nil {
				return err
			}
			continue
		}
		a := &Attr{Chain: ch, EmbedNullable: embedNullable, Owner: d.Name, Card: fl.Card, Kind: fl.Kind, Oneof: fl.Oneof,
			FullKey: full, TypeKey: typeKey, EmbedKey: alt, Cast: fl.CastType}
		// name
		if v, ok := lookup(b.c.NameOverrides, full, alt, typeKey); ok {
			a.Name = v
		} else if fl.JSONTag != nil && strings.Split(*fl.JSONTag, ",")[0] != "" && strings.Split(*fl.JSONTag, ",")[0] != "-" {
			a.Name = strings.Split(*fl.JSONTag, ",")[0]
		} else {
			a.Name = strcase.SnakeCase(fl.Name)
		}
		a.DiagSuffix = fl.Name
		a.DiagFull = full
		// type
		a.TF = tfOf(fl.Kind)
		a.GoScalar = goScalar[fl.Kind]
		if fl.CastType != "" && IsDurationCast(fl.CastType, b.c) {
			a.TF = TDuration
		}
		if fl.StdDurationOnInt {
			a.TF = TDuration
		}
		switch fl.Kind {
		case ir.KMessage:
			sub := b.f.Msg(fl.Type)
			if sub == nil {
				return fmt.Errorf("unknown message %s", fl.Type)
			}
			sm, err := b.msg(sub, full, full, depth+1)
			if err != nil {
				return err
			}
			a.Msg = sm
			a.Pointer = fl.IsNullable() || fl.Oneof != ""
		case ir.KTimestamp, ir.KDuration:
			a.Pointer = fl.IsNullable() || fl.Oneof != ""
			a.ByValueTemporal = !a.Pointer
		}
		if a.TF == TDuration && fl.Kind != ir.KDuration {
			a.ByValueTemporal = true
		}
		// custom
		if ct, ok := b.c.CustomTypes[full]; ok && full != "" {
			a.Custom = &Custom{TypeName: ct}
		} else if fl.CustomType != "" {
			a.Custom = &Custom{TypeName: fl.CustomType, ViaProto: true}
		}
		if a.Custom != nil {
			if s, ok := b.c.Suffixes[a.Custom.TypeName]; ok {
				a.Custom.Suffix = s
			} else {
				a.Custom.Suffix = strings.ReplaceAll(strings.ReplaceAll(a.Custom.TypeName, "/", ""), ".", "")
			}
			a.TF = TCustom
			a.Msg = nil
		}
		// flags
		a.Required = has(b.c.RequiredFields, full, typeKey, alt)
		a.Computed = has(b.c.ComputedFields, full, typeKey, alt)
		a.Sensitive = has(b.c.SensitiveFields, full, typeKey, alt)
		if v, ok := lookup(b.c.Validators, full, alt, typeKey); ok {
			a.Validators = v
		}
		if v, ok := lookup(b.c.PlanModifiers, full, alt, typeKey); ok {
			a.PlanModifiers = v
		} else if b.c.UseStateForUnknown && a.Computed {
			a.PlanModifiers = []string{"github.com/hashicorp/terraform-plugin-framework/tfsdk.UseStateForUnknown()"}
		}
		a.Description = Flatten(fl.Comment.Leading)
		out.Attrs = append(out.Attrs, a)
	}
	return nil
}

// ---------------------------------------------------------------- occurrences (for drawing configurations)

// Occurrence is one addressable field occurrence below the selected roots.
type Occurrence struct {
	FullKey          string
	TypeKey          string
	EmbedKey         string // <EmbeddingMessage>.<Field> for flattened children of an embedded message
	Message          string // owner message
	Field            *ir.Field
	Depth            int
	Embed            bool // the field is an embedding field itself
	UnderNestedEmbed bool
	// MsgPath is the full path of the message-typed field itself (for injected fields), "" if none.
}

// Occurrences walks the selected roots (ignoring exclusions) and lists every field occurrence.
func Occurrences(f *ir.File, types []string) []Occurrence {
	var out []Occurrence
	embedBase := ""
	var walk func(d *ir.Message, keyBase string, depth int, flattened bool, rootLevel bool)
	walk = func(d *ir.Message, keyBase string, depth int, flattened bool, rootLevel bool) {
		eb := embedBase
		embedBase = ""
		if depth > 12 {
			return
		}
		for _, fl := range d.Fields {
			full := ""
			if keyBase != "" {
				full = keyBase + "." + fl.Name
			}
			o := Occurrence{FullKey: full, TypeKey: d.Name + "." + fl.Name, Message: d.Name, Field: fl, Depth: depth, Embed: fl.Embed}
			if eb != "" {
				o.EmbedKey = eb + "." + fl.Name
			}
			if fl.Embed {
				// the embedding field itself is only addressed as Message.Field
				o.FullKey = ""
				if rootLevel && !flattened {
					o.FullKey = full
				}
				out = append(out, o)
				sub := f.Msg(fl.Type)
				if sub == nil {
					continue
				}
				childBase := ""
				embedBase = d.Name
				walk(sub, childBase, depth+1, true, rootLevel)
				continue
			}
			out = append(out, o)
			if fl.Kind == ir.KMessage && fl.CustomType == "" {
				if sub := f.Msg(fl.Type); sub != nil {
					walk(sub, full, depth+1, false, false)
				}
			}
		}
	}
	for _, m := range f.Messages {
		if ir.Has(types, m.Name) {
			walk(m, m.Name, 0, false, true)
		}
	}
	return out
}

// MessagePaths lists the full paths of message occurrences (roots and nested), for injected_fields.
func MessagePaths(f *ir.File, types []string) []string {
	var out []string
	for _, m := range f.Messages {
		if ir.Has(types, m.Name) {
			out = append(out, m.Name)
		}
	}
	for _, o := range Occurrences(f, types) {
		if o.FullKey != "" && o.Field.Kind == ir.KMessage && !o.Field.Embed && o.Field.CustomType == "" {
			if sub := f.Msg(o.Field.Type); sub != nil {
				out = append(out, o.FullKey) // also messages without fields (placeholder + injected attributes)
			}
		}
	}
	return out
}

// AttrNames returns, for a flattened message, the multiset of attribute names (including injected).
func (m *Msg) AttrNames() []string {
	var out []string
	for _, a := range m.Attrs {
		out = append(out, a.Name)
	}
	for _, i := range m.Injected {
		out = append(out, i.Name)
	}
	return out
}

// Walk visits m and every nested message model.
func (m *Msg) Walk(fn func(*Msg)) {
	fn(m)
	for _, a := range m.Attrs {
		if a.Msg != nil {
			a.Msg.Walk(fn)
		}
	}
}
