package rt

import (
	"encoding/json"
	"reflect"

	"github.com/hashicorp/terraform-plugin-framework/attr"

	"verif/support"
)

// setupHooks makes the custom-type hooks faithful converters: CopyTo renders the
// field as JSON into the payload, CopyFrom decodes the payload back into the field
// (null, unknown, missing or foreign values reset it to zero).
func setupHooks() {
	support.Render = func(field interface{}) string {
		b, _ := json.Marshal(field)
		return string(b)
	}
	support.Store = func(target interface{}, v attr.Value) {
		tv := reflect.ValueOf(target)
		if tv.Kind() != reflect.Ptr || tv.IsNil() {
			return
		}
		tv.Elem().Set(reflect.Zero(tv.Elem().Type()))
		cv, ok := v.(support.CustomValue)
		if !ok || cv.Null || cv.Unknown {
			return
		}
		_ = json.Unmarshal([]byte(cv.Payload), target)
	}
}
