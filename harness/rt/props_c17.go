package rt

import (
	"encoding/json"
	"fmt"
	"reflect"
	"sort"

	"github.com/hashicorp/terraform-plugin-framework/attr"
	"pgregory.net/rapid"

	"verif/model"
	"verif/support"
)

func init() {
	inner["C17"] = propC17
}

// customSite is one custom-type field instance reached in a struct / object pair.
type customSite struct {
	path    string
	ab      *AttrB
	field   reflect.Value // the Go field (addressable when addr is true)
	addr    bool          // the hook must have received exactly &field
	node    *Node         // tf.Attrs[name] (nil when absent)
	objNode *Node         // the enclosing object node
}

// customSites walks struct sv and object n together and lists the custom fields whose enclosing object is read/written.
func customSites(path string, b *MsgB, sv reflect.Value, n *Node, addressable bool, forTo bool, out *[]customSite) {
	if n == nil || n.Kind != "object" {
		return
	}
	for _, ab := range b.Attrs {
		if ab.A.Kind == "placeholder" {
			continue
		}
		name := ab.A.Name
		p := path + "." + name
		an := n.Attrs[name]
		v, ok := ab.Get(sv)
		if ab.A.Custom != nil {
			if !ok {
				continue
			}
			*out = append(*out, customSite{path: p, ab: ab, field: v, addr: addressable && v.CanAddr(), node: an, objNode: n})
			continue
		}
		if ab.Sub == nil || !ok {
			continue
		}
		if an == nil || an.Kind == "raw" {
			continue
		}
		if !forTo && an.Absent() {
			continue
		}
		switch ab.A.Card {
		case "":
			if an.Kind != "object" {
				continue
			}
			if v.Kind() == reflect.Ptr {
				if v.IsNil() {
					continue
				}
				customSites(p, ab.Sub, v.Elem(), an, addressable, forTo, out)
			} else {
				customSites(p, ab.Sub, v, an, addressable && v.CanAddr(), forTo, out)
			}
		case "repeated":
			if an.Kind != "list" || v.Len() != len(an.Elems) {
				continue
			}
			for i := 0; i < v.Len(); i++ {
				ev, en := v.Index(i), an.Elems[i]
				if en.Kind != "object" || (!forTo && en.Absent()) || (forTo && en.Null) {
					continue
				}
				if ev.Kind() == reflect.Ptr {
					if ev.IsNil() {
						continue
					}
					customSites(fmt.Sprintf("%s[%d]", p, i), ab.Sub, ev.Elem(), en, addressable, forTo, out)
				} else {
					// value elements are decoded into a local variable and copied: no stable address
					customSites(fmt.Sprintf("%s[%d]", p, i), ab.Sub, ev, en, false, forTo, out)
				}
			}
		case "map":
			if an.Kind != "map" {
				continue
			}
			for _, k := range an.SortedKeys() {
				en := an.MapElems[k]
				ev := v.MapIndex(reflect.ValueOf(k).Convert(v.Type().Key()))
				if !ev.IsValid() || en.Kind != "object" || (!forTo && en.Absent()) || (forTo && en.Null) {
					continue
				}
				if ev.Kind() == reflect.Ptr {
					if ev.IsNil() {
						continue
					}
					customSites(fmt.Sprintf("%s[%q]", p, k), ab.Sub, ev.Elem(), en, addressable, forTo, out)
				} else {
					customSites(fmt.Sprintf("%s[%q]", p, k), ab.Sub, ev, en, false, forTo, out)
				}
			}
		}
	}
}

// schemaCustoms lists the custom attributes of a model with the attribute the hook has to receive.
func schemaCustoms(m *model.Msg, out *[]*model.Attr) {
	for _, a := range m.Attrs {
		if a.Custom != nil {
			*out = append(*out, a)
		}
		if a.Msg != nil {
			schemaCustoms(a.Msg, out)
		}
	}
}

func jsonOf(v interface{}) string {
	b, _ := json.Marshal(v)
	return string(b)
}

func propC17(t *rapid.T, e *Env) {
	rc := drawRoot(t, e)
	// ---- schema: the hook receives description and flags, its result is the entry
	support.ResetCalls()
	if _, d, p := safeSchema(rc.R); p != "" || d.HasError() {
		e.Fail(t, "C17 GenSchema%s failed: %s %v", rc.M.Name, p, errorDiags(d))
	}
	var customs []*model.Attr
	schemaCustoms(rc.M, &customs)
	var calls []support.Call
	for _, c := range support.Calls() {
		if c.Hook == "GenSchema" {
			calls = append(calls, c)
		}
	}
	if len(calls) != len(customs) {
		e.Fail(t, "C17 GenSchema%s called the GenSchema hooks %d times for %d custom fields", rc.M.Name, len(calls), len(customs))
	}
	used := make([]bool, len(calls))
	for _, a := range customs {
		found := false
		for i, c := range calls {
			if used[i] || c.Suffix != a.Custom.Suffix {
				continue
			}
			in := c.AttrIn
			if in.Type != nil || in.Attributes != nil {
				continue
			}
			if checkFlags("", in, a) != "" {
				continue
			}
			used[i], found = true, true
			break
		}
		if !found {
			var got []string
			for _, c := range calls {
				got = append(got, fmt.Sprintf("GenSchema%s(desc=%q required=%v optional=%v computed=%v sensitive=%v validators=%v planmodifiers=%v type=%v)", c.Suffix, c.AttrIn.Description,
					c.AttrIn.Required, c.AttrIn.Optional, c.AttrIn.Computed, c.AttrIn.Sensitive, validatorIDs(c.AttrIn.Validators), planModifierIDs(c.AttrIn.PlanModifiers), c.AttrIn.Type != nil))
			}
			sort.Strings(got)
			e.Fail(t, "C17 no GenSchema%s call carries the description and flags of custom field %s (want desc=%q required=%v computed=%v sensitive=%v validators=%v planmodifiers=%v, no Type); calls: %v",
				a.Custom.Suffix, a.TypeKey, a.Description, a.Required, a.Computed, a.Sensitive, a.Validators, a.PlanModifiers, got)
		}
	}
	n := 0
	if msg := checkSchemaAttrs(rc.M.Name, rc.Schema.Attributes, rc.M, rc.Mdl, schemaMode{names: true}, &n); msg != "" {
		e.Fail(t, "C17 %s", msg)
	}
	// ---- CopyFrom
	obj, err := GenObject(t, rc.Type, rc.B, OOpts{PAbsent: 20, OneofExclusive: true})
	if err != nil {
		t.Fatalf("%v", err)
	}
	on := ToNode(obj)
	// sometimes delete custom attributes (at the root): the diagnostic is still due and the hook is
	// still called, with a nil interface as attribute value
	var expMissing []expDiag
	for _, ab := range rc.B.Attrs {
		if ab.A.Custom != nil && on.Attrs[ab.A.Name] != nil && rapid.IntRange(0, 3).Draw(t, "delcustom") == 0 {
			delete(on.Attrs, ab.A.Name)
			expMissing = append(expMissing, expDiag{full: ab.A.DiagFull, field: ab.A.DiagSuffix, owner: ab.A.Owner, what: "missing", max: 1})
		}
	}
	target := GenStruct(t, rc.B.Typ, VOpts{})
	support.ResetCalls()
	d, p := rc.CopyFrom(on.Object(), target)
	if p != "" {
		e.Fail(t, "C17 Copy%sFromTerraform panicked: %s; object %s", rc.M.Name, p, on.String())
	}
	if msg := matchDiags(d, mergeDiags(expMissing), false); msg != "" {
		e.Fail(t, "C17 Copy%sFromTerraform with %d custom attributes deleted: %s; object %s", rc.M.Name, len(expMissing), msg, on.String())
	}
	if len(expMissing) > 0 {
		e.Res.Class("custom_attribute_missing")
	}
	var sites []customSite
	customSites(rc.M.Name, rc.B, target.Elem(), on, true, false, &sites)
	var fromCalls []support.Call
	for _, c := range support.Calls() {
		if c.Hook == "CopyFrom" {
			fromCalls = append(fromCalls, c)
		}
	}
	if len(fromCalls) != len(sites) {
		e.Fail(t, "C17 Copy%sFromTerraform called the CopyFrom hooks %d times, %d custom fields are reached; object %s", rc.M.Name, len(fromCalls), len(sites), on.String())
	}
	usedF := make([]bool, len(fromCalls))
	below := false
	// sites with a stable address are matched first: they accept exactly one call, the others
	// (value elements of lists and maps) accept any call with the right suffix and value
	sort.SliceStable(sites, func(i, j int) bool { return sites[i].addr && !sites[j].addr })
	for _, s := range sites {
		found := false
		for i, c := range fromCalls {
			if usedF[i] || c.Suffix != s.ab.A.Custom.Suffix {
				continue
			}
			if s.node == nil {
				if c.Value != nil {
					continue
				}
			} else if c.Value == nil || !reflect.DeepEqual(c.Value, s.node.Attr()) {
				continue
			}
			if s.addr && reflect.ValueOf(c.Target).Pointer() != s.field.Addr().Pointer() {
				continue
			}
			usedF[i], found = true, true
			break
		}
		if !found {
			e.Fail(t, "C17 no CopyFrom%s call received the attribute value %s and a pointer to field %s; object %s", s.ab.A.Custom.Suffix, s.node.String(), s.path, on.String())
		}
		// the generated code must not overwrite what the hook stored
		want := reflect.New(s.field.Type())
		var stored attr.Value
		if s.node != nil {
			stored = s.node.Attr()
		}
		support.Store(want.Interface(), stored)
		if jsonOf(want.Elem().Interface()) != jsonOf(s.field.Interface()) {
			e.Fail(t, "C17 field %s holds %s after CopyFrom, the hook stored %s", s.path, jsonOf(s.field.Interface()), jsonOf(want.Elem().Interface()))
		}
		if len(s.path) > len(rc.M.Name)+1+len(s.ab.A.Name) {
			below = true
		}
	}
	// ---- CopyTo (first into an empty object, then in place)
	x := GenStruct(t, rc.B.Typ, VOpts{})
	tobj := rc.Empty()
	for round := 0; round < 2; round++ {
		before := ToNode(tobj)
		support.ResetCalls()
		d, p := rc.CopyTo(x, &tobj)
		if p != "" || len(errorDiags(d)) > 0 {
			e.Fail(t, "C17 Copy%sToTerraform failed: %s %v", rc.M.Name, p, errorDiags(d))
		}
		after := ToNode(tobj)
		var tsites []customSite
		customSites(rc.M.Name, rc.B, x.Elem(), after, false, true, &tsites)
		var toCalls []support.Call
		for _, c := range support.Calls() {
			if c.Hook == "CopyTo" {
				toCalls = append(toCalls, c)
			}
		}
		if len(toCalls) != len(tsites) {
			e.Fail(t, "C17 Copy%sToTerraform called the CopyTo hooks %d times, %d custom fields are written; object %s", rc.M.Name, len(toCalls), len(tsites), after.String())
		}
		usedT := make([]bool, len(toCalls))
		for _, s := range tsites {
			found := false
			for i, c := range toCalls {
				if usedT[i] || c.Suffix != s.ab.A.Custom.Suffix {
					continue
				}
				if jsonOf(c.Field) != jsonOf(s.field.Interface()) {
					continue
				}
				if c.Type == nil || !c.Type.Equal(support.CustomType{Suffix: s.ab.A.Custom.Suffix}) {
					continue
				}
				res, ok := c.Result.(support.CustomValue)
				if !ok || s.node == nil || s.node.Kind != "custom" || s.node.Ser != res.Serial {
					continue
				}
				usedT[i], found = true, true
				break
			}
			if !found {
				e.Fail(t, "C17 no CopyTo%s call received field %s (%s) with the attribute type and had its result stored (attribute now %s)", s.ab.A.Custom.Suffix, s.path, jsonOf(s.field.Interface()), s.node.String())
			}
			if len(s.path) > len(rc.M.Name)+1+len(s.ab.A.Name) {
				below = true
			}
		}
		// current value: nil interface on an empty target at root level; the previous value in the second round
		if round == 0 {
			for _, c := range toCalls {
				_ = c
			}
			for _, s := range tsites {
				if len(s.path) == len(rc.M.Name)+1+len(s.ab.A.Name) { // root level
					for _, c := range toCalls {
						if res, ok := c.Result.(support.CustomValue); ok && s.node != nil && res.Serial == s.node.Ser && c.Current != nil {
							e.Fail(t, "C17 CopyTo%s received %v as current value on an empty target, want a nil interface", s.ab.A.Custom.Suffix, c.Current)
						}
					}
				}
			}
		} else {
			for _, s := range tsites {
				if len(s.path) != len(rc.M.Name)+1+len(s.ab.A.Name) {
					continue
				}
				prev := before.Attrs[s.ab.A.Name]
				for _, c := range toCalls {
					if res, ok := c.Result.(support.CustomValue); ok && s.node != nil && res.Serial == s.node.Ser {
						if prev == nil || c.Current == nil || !reflect.DeepEqual(c.Current, prev.Attr()) {
							e.Fail(t, "C17 CopyTo%s did not receive the current attribute value %s (got %v)", s.ab.A.Custom.Suffix, prev.String(), c.Current)
						}
					}
				}
			}
		}
	}
	if len(customs) > 0 {
		e.Res.Class("has_custom_field")
	}
	if below {
		e.Res.Class("custom_below_root")
	}
	repeated := false
	for _, a := range customs {
		if a.Card != "" {
			repeated = true
		}
	}
	if repeated {
		e.Res.Class("custom_repeated")
	}
	if below || repeated {
		e.Res.Nontriv(on.String() + describe(rc, x))
	}
	// ---- a hook that returns a nil attr.Value: exactly that is stored, over whatever the attribute held
	if len(customs) > 0 && rapid.Bool().Draw(t, "nilresults") {
		support.NilResults = true
		support.ResetCalls()
		d, p := rc.CopyTo(x, &tobj)
		support.NilResults = false
		if p != "" {
			e.Fail(t, "C17 Copy%sToTerraform panicked when the CopyTo hooks return nil: %s", rc.M.Name, p)
		}
		_ = d
		after := ToNode(tobj)
		for _, ab := range rc.B.Attrs {
			if ab.A.Custom == nil {
				continue
			}
			if _, ok := ab.Get(x.Elem()); !ok {
				continue
			}
			an, present := after.Attrs[ab.A.Name]
			if !present || an.Kind != "raw" || an.Raw != nil {
				e.Fail(t, "C17 CopyTo%s returned nil but attribute %s holds %s instead of the returned value", ab.A.Custom.Suffix, ab.A.Name, an.String())
			}
		}
		e.Res.Class("hook_returns_nil")
	}
	e.Res.Sample(fmt.Sprintf("%d custom fields in %s; object %s", len(customs), rc.M.Name, on.String()))
	_ = attr.Value(nil)
}
