package rt

import (
	"fmt"
	"reflect"
	"strings"

	"verif/model"
)

// Go struct fields are found through the struct tags protoc-gen-gogo writes
// (`protobuf:"...,name=<proto name>,..."`, `protobuf_oneof:"<name>"`) and through
// XXX_OneofWrappers, never through naming logic shared with the plugin.

type oneofRef struct {
	holder  int          // index of the interface field in the struct
	wrapper reflect.Type // pointer-to-wrapper type; wrapper struct has one field
}

type fieldRef struct {
	index int
	oneof *oneofRef
	typ   reflect.Type // type of the Go field (or of the wrapper's payload field)
}

func protoName(tag reflect.StructTag) string {
	pb := tag.Get("protobuf")
	if pb == "" {
		return ""
	}
	for _, p := range strings.Split(pb, ",") {
		if strings.HasPrefix(p, "name=") {
			return p[5:]
		}
	}
	return ""
}

var lookupCache = map[reflect.Type]map[string]fieldRef{}

func structFields(st reflect.Type) map[string]fieldRef {
	if m, ok := lookupCache[st]; ok {
		return m
	}
	m := map[string]fieldRef{}
	var holders []int
	for i := 0; i < st.NumField(); i++ {
		f := st.Field(i)
		if n := protoName(f.Tag); n != "" {
			m[n] = fieldRef{index: i, typ: f.Type}
		}
		if f.Tag.Get("protobuf_oneof") != "" {
			holders = append(holders, i)
		}
	}
	if len(holders) > 0 {
		if meth, ok := reflect.PtrTo(st).MethodByName("XXX_OneofWrappers"); ok {
			out := meth.Func.Call([]reflect.Value{reflect.New(st)})
			ws := out[0].Interface().([]interface{})
			for _, w := range ws {
				wt := reflect.TypeOf(w) // *T_Member
				pf := wt.Elem().Field(0)
				n := protoName(pf.Tag)
				for _, h := range holders {
					if wt.Implements(st.Field(h).Type) {
						m[n] = fieldRef{index: -1, oneof: &oneofRef{holder: h, wrapper: wt}, typ: pf.Type}
					}
				}
			}
		}
	}
	lookupCache[st] = m
	return m
}

// AttrB binds one model attribute to the Go struct.
type AttrB struct {
	A     *model.Attr
	chain []fieldRef // embedded fields..., the field itself
	Sub   *MsgB      // for message kinds (singular, element or map value)
	Typ   reflect.Type
}

// MsgB binds a flattened message model to a Go struct type.
type MsgB struct {
	M        *model.Msg
	Typ      reflect.Type // struct type
	Attrs    []*AttrB
	ByName   map[string]*AttrB
	Excluded [][]fieldRef
	// Holders lists the oneof interface fields reachable in the flattened view: chain of embedded refs + holder index
	Holders []holderB
}

type holderB struct {
	Name  string
	embed []fieldRef
	index int
	typ   reflect.Type
}

func derefStruct(t reflect.Type) reflect.Type {
	for t.Kind() == reflect.Ptr || t.Kind() == reflect.Slice || t.Kind() == reflect.Map {
		t = t.Elem()
	}
	return t
}

func resolveChain(st reflect.Type, chain []string) ([]fieldRef, reflect.Type, error) {
	var refs []fieldRef
	cur := st
	for i, n := range chain {
		fs := structFields(cur)
		r, ok := fs[n]
		if !ok {
			return nil, nil, fmt.Errorf("proto field %q not found in Go struct %s", n, cur)
		}
		refs = append(refs, r)
		if i < len(chain)-1 {
			cur = r.typ
			if cur.Kind() == reflect.Ptr {
				cur = cur.Elem()
			}
			if cur.Kind() != reflect.Struct {
				return nil, nil, fmt.Errorf("embedded field %q of %s is not a struct", n, st)
			}
		} else {
			return refs, r.typ, nil
		}
	}
	return nil, nil, fmt.Errorf("empty chain")
}

// Bind resolves a message model against a Go struct type.
func Bind(m *model.Msg, st reflect.Type) (*MsgB, error) {
	if st.Kind() == reflect.Ptr {
		st = st.Elem()
	}
	if st.Kind() != reflect.Struct {
		return nil, fmt.Errorf("message %s: Go type %s is not a struct", m.Name, st)
	}
	b := &MsgB{M: m, Typ: st, ByName: map[string]*AttrB{}}
	for _, a := range m.Attrs {
		if a.Kind == "placeholder" {
			ab := &AttrB{A: a}
			b.Attrs = append(b.Attrs, ab)
			b.ByName[a.Name] = ab
			continue
		}
		refs, typ, err := resolveChain(st, a.Chain)
		if err != nil {
			return nil, fmt.Errorf("message %s attribute %s: %v", m.Name, a.Name, err)
		}
		ab := &AttrB{A: a, chain: refs, Typ: typ}
		if a.Msg != nil {
			sub, err := Bind(a.Msg, derefStruct(typ))
			if err != nil {
				return nil, err
			}
			ab.Sub = sub
		}
		b.Attrs = append(b.Attrs, ab)
		b.ByName[a.Name] = ab
	}
	for _, e := range m.Excluded {
		refs, _, err := resolveChain(st, e.Chain)
		if err != nil {
			return nil, fmt.Errorf("message %s excluded %v: %v", m.Name, e.Chain, err)
		}
		b.Excluded = append(b.Excluded, refs)
	}
	return b, nil
}

// reach walks the embedded part of the chain. With alloc, nil embedded pointers are allocated.
func reachEmbedded(sv reflect.Value, refs []fieldRef, alloc bool) (reflect.Value, bool) {
	cur := sv
	for _, r := range refs {
		f := cur.Field(r.index)
		if f.Kind() == reflect.Ptr {
			if f.IsNil() {
				if !alloc {
					return reflect.Value{}, false
				}
				f.Set(reflect.New(f.Type().Elem()))
			}
			f = f.Elem()
		}
		cur = f
	}
	return cur, true
}

// Get returns the Go value of the attribute's field in struct sv. ok is false when
// the field is not materialised (nil embedded parent, other or no oneof branch).
func (ab *AttrB) Get(sv reflect.Value) (reflect.Value, bool) {
	n := len(ab.chain)
	parent, ok := reachEmbedded(sv, ab.chain[:n-1], false)
	if !ok {
		return reflect.Value{}, false
	}
	last := ab.chain[n-1]
	if last.oneof == nil {
		return parent.Field(last.index), true
	}
	h := parent.Field(last.oneof.holder)
	if h.IsNil() {
		return reflect.Value{}, false
	}
	w := h.Elem() // *T_Member
	if w.Type() != last.oneof.wrapper {
		return reflect.Value{}, false
	}
	if w.IsNil() {
		return reflect.Value{}, false
	}
	return w.Elem().Field(0), true
}

// Set stores v into the attribute's field, allocating embedded parents and the oneof wrapper.
func (ab *AttrB) Set(sv reflect.Value, v reflect.Value) {
	n := len(ab.chain)
	parent, _ := reachEmbedded(sv, ab.chain[:n-1], true)
	last := ab.chain[n-1]
	if last.oneof == nil {
		parent.Field(last.index).Set(v)
		return
	}
	w := reflect.New(last.oneof.wrapper.Elem())
	w.Elem().Field(0).Set(v)
	parent.Field(last.oneof.holder).Set(w)
}

// Holder returns the oneof interface field value for a member attribute (ok=false under a nil embedded parent).
func (ab *AttrB) Holder(sv reflect.Value) (reflect.Value, bool) {
	n := len(ab.chain)
	last := ab.chain[n-1]
	if last.oneof == nil {
		return reflect.Value{}, false
	}
	parent, ok := reachEmbedded(sv, ab.chain[:n-1], false)
	if !ok {
		return reflect.Value{}, false
	}
	return parent.Field(last.oneof.holder), true
}

// GroupKey identifies the oneof group of a member within the flattened message.
func (ab *AttrB) GroupKey() string {
	if ab.A.Oneof == "" {
		return ""
	}
	return strings.Join(ab.A.Chain[:len(ab.A.Chain)-1], ".") + "#" + ab.A.Oneof
}

func (ab *AttrB) Key() string { return strings.Join(ab.A.Chain, ".") }

// UnderNilEmbed reports whether some nullable embedded parent on the chain is nil.
func (ab *AttrB) UnderNilEmbed(sv reflect.Value) bool {
	_, ok := reachEmbedded(sv, ab.chain[:len(ab.chain)-1], false)
	return !ok
}
