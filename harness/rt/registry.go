// Package rt is the run-time half of the harness: it is linked into every
// compiled case together with the plugin's output and drives the emitted
// functions with generated values, objects and histories (DESIGN.md §2.2).
package rt

import (
	"context"

	"github.com/hashicorp/terraform-plugin-framework/diag"
	"github.com/hashicorp/terraform-plugin-framework/tfsdk"
	"github.com/hashicorp/terraform-plugin-framework/types"
)

// Root is one selected root type of one variant, registered by the generated glue.
type Root struct {
	Variant string
	Name    string
	New     func() interface{}
	Schema  func(context.Context) (tfsdk.Schema, diag.Diagnostics)
	From    func(context.Context, types.Object, interface{}) diag.Diagnostics
	To      func(context.Context, interface{}, *types.Object) diag.Diagnostics
}

var roots []*Root

func Register(r *Root) { roots = append(roots, r) }

func findRoot(variant, name string) *Root {
	for _, r := range roots {
		if r.Variant == variant && r.Name == name {
			return r
		}
	}
	return nil
}
