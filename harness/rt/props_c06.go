package rt

import (
	"context"
	"fmt"
	"reflect"
	"sort"
	"strings"

	"github.com/hashicorp/terraform-plugin-framework/attr"
	"github.com/hashicorp/terraform-plugin-framework/diag"
	"github.com/hashicorp/terraform-plugin-framework/types"
	"github.com/hashicorp/terraform-plugin-go/tftypes"
	"pgregory.net/rapid"
)

func init() {
	inner["C06"] = propC06
}

// foreignValue is an attr.Value implementation the generated code has never heard of.
type foreignValue struct{ n int }

func (f foreignValue) Type(context.Context) attr.Type { return types.StringType }
func (f foreignValue) ToTerraformValue(context.Context) (tftypes.Value, error) {
	return tftypes.NewValue(tftypes.String, "foreign"), nil
}
func (f foreignValue) Equal(o attr.Value) bool { x, ok := o.(foreignValue); return ok && x == f }
func (f foreignValue) IsNull() bool            { return false }
func (f foreignValue) IsUnknown() bool         { return false }
func (f foreignValue) String() string          { return "foreign" }

type expDiag struct {
	full  string // full dotted path ("" if not fixed)
	field string // proto field name (trailing element)
	owner string
	what  string
	max   int // for CopyTo: upper bound on the number of diagnostics (one per reached write)
	used  int
}

func (d expDiag) String() string {
	if d.full != "" {
		return d.what + ":" + d.full
	}
	return d.what + ":" + d.owner + "." + d.field
}

// wrongValue returns a value of a kind different from n's.
func wrongValue(t *rapid.T, n *Node) *Node {
	switch rapid.IntRange(0, 3).Draw(t, "wrongkind") {
	case 0:
		return &Node{Kind: "raw", Raw: nil} // nil interface
	case 1:
		return &Node{Kind: "raw", Raw: foreignValue{1}}
	case 2:
		if n.Kind == "bool" {
			return &Node{Kind: "string", S: "not a bool"}
		}
		return &Node{Kind: "bool", B: true}
	default:
		if n.Kind == "object" {
			return &Node{Kind: "list", ElemType: types.StringType}
		}
		return &Node{Kind: "object", AttrTypes: map[string]attr.Type{}, Attrs: map[string]*Node{}}
	}
}

type corruptor struct {
	t     *rapid.T
	p     int // 1/p probability per site
	exp   []expDiag
	sites int
	deep  bool
}

func (c *corruptor) hit() bool { return rapid.IntRange(0, c.p).Draw(c.t, "corrupt") == 0 }

func nullify(n *Node) *Node {
	out := n.Clone()
	out.Null, out.Unknown = true, false
	return out
}

func (c *corruptor) diag(ab *AttrB, what string) {
	c.exp = append(c.exp, expDiag{full: ab.A.DiagFull, field: ab.A.DiagSuffix, owner: ab.A.Owner, what: what, max: 1})
	c.sites++
}

// object corrupts the known, non-null object n (message b) in place and applies the
// corresponding "nullification" to ref, the clean twin used as the behavioural oracle.
func (c *corruptor) object(b *MsgB, n, ref *Node, depth int) {
	if c.hit() && !b.M.Empty {
		// nil Attrs: every attribute of the message is missing
		n.Attrs, n.NilAttrs = nil, true
		for _, ab := range b.Attrs {
			if ab.A.Kind == "placeholder" {
				continue
			}
			c.diag(ab, "missing")
			if r := ref.Attrs[ab.A.Name]; r != nil {
				ref.Attrs[ab.A.Name] = nullify(r)
			}
		}
		if depth > 0 {
			c.deep = true
		}
		return
	}
	for _, ab := range b.Attrs {
		if ab.A.Kind == "placeholder" {
			continue
		}
		name := ab.A.Name
		an, rn := n.Attrs[name], ref.Attrs[name]
		if an == nil {
			continue
		}
		if c.hit() {
			delete(n.Attrs, name)
			ref.Attrs[name] = nullify(rn)
			c.diag(ab, "missing")
			if depth > 0 {
				c.deep = true
			}
			continue
		}
		if ab.A.Custom != nil {
			continue // the hook, not the generated code, sees the value
		}
		if c.hit() {
			n.Attrs[name] = wrongValue(c.t, an)
			ref.Attrs[name] = nullify(rn)
			c.diag(ab, "conversion")
			if depth > 0 {
				c.deep = true
			}
			continue
		}
		if an.Absent() {
			continue
		}
		switch an.Kind {
		case "object":
			if ab.Sub != nil {
				c.object(ab.Sub, an, rn, depth+1)
			}
		case "list":
			if c.hit() {
				an.Elems, an.NilElems = nil, true // nil Elems: reads as an empty list, no diagnostic
				rn.Elems = nil
				continue
			}
			for i, en := range an.Elems {
				if c.hit() {
					an.Elems[i] = wrongValue(c.t, en)
					rn.Elems[i] = nullify(rn.Elems[i])
					c.diag(ab, "conversion")
					c.deep = true
					continue
				}
				if ab.Sub != nil && !en.Absent() && en.Kind == "object" {
					c.object(ab.Sub, en, rn.Elems[i], depth+1)
				}
			}
		case "map":
			if c.hit() {
				an.MapElems, an.NilElems = nil, true
				rn.MapElems = map[string]*Node{}
				continue
			}
			for _, k := range an.SortedKeys() {
				en := an.MapElems[k]
				if c.hit() {
					an.MapElems[k] = wrongValue(c.t, en)
					// nothing is claimed about the corrupted entry itself: it is not stored
					delete(rn.MapElems, k)
					c.diag(ab, "conversion")
					c.deep = true
					continue
				}
				if ab.Sub != nil && !en.Absent() && en.Kind == "object" {
					c.object(ab.Sub, en, rn.MapElems[k], depth+1)
				}
			}
		}
	}
}

// matchDiags matches error diagnostics against the expectation (as multisets); returns "" if they agree.
func matchDiags(d diag.Diagnostics, exp []expDiag, exactCounts bool) string {
	var details []string
	for _, x := range d {
		if x.Severity() == diag.SeverityError {
			details = append(details, x.Detail())
		}
	}
	sort.Strings(details)
	names := func(detail string, e expDiag) bool {
		for _, tok := range strings.FieldsFunc(detail, func(r rune) bool {
			return r == ' ' || r == ':' || r == ',' || r == ';' || r == '"' || r == '\'' || r == '`' || r == '(' || r == ')' || r == '[' || r == ']' || r == '{' || r == '}'
		}) {
			tok = strings.TrimRight(tok, ".")
			if e.full != "" {
				if tok == e.full {
					return true
				}
				continue
			}
			if tok == e.owner+"."+e.field || strings.HasSuffix(tok, "."+e.field) {
				return true
			}
		}
		return false
	}
	e := append([]expDiag{}, exp...)
	var unmatched []string
	// Paths below an embedded message are only matched by their trailing element, which can be
	// ambiguous, so the diagnostics are assigned by bipartite matching: first every expectation
	// gets one diagnostic of its own (Kuhn's algorithm), then the remaining diagnostics go to
	// any expectation that still has capacity (one per reached site).
	sort.SliceStable(e, func(i, j int) bool { return e[i].full != "" && e[j].full == "" })
	// slots: every expectation has max slots; slot 0 of each is mandatory (the diagnostic must be reported at least once)
	type slot struct{ exp int }
	var slots []slot
	first := make([]int, len(e))
	for x := range e {
		first[x] = len(slots)
		for k := 0; k < e[x].max; k++ {
			slots = append(slots, slot{x})
		}
	}
	slotOwner := make([]int, len(slots)) // slot -> detail
	for i := range slotOwner {
		slotOwner[i] = -1
	}
	detailSlot := make([]int, len(details)) // detail -> slot
	for i := range detailSlot {
		detailSlot[i] = -1
	}
	// phase 1: maximum matching of the mandatory slots (augmenting from the slot side)
	var fromSlot func(sl int, seen []bool) bool
	fromSlot = func(sl int, seen []bool) bool {
		for di, det := range details {
			if seen[di] || !names(det, e[slots[sl].exp]) {
				continue
			}
			seen[di] = true
			if detailSlot[di] < 0 || fromSlot(detailSlot[di], seen) {
				detailSlot[di], slotOwner[sl] = sl, di
				return true
			}
		}
		return false
	}
	for x := range e {
		fromSlot(first[x], make([]bool, len(details)))
	}
	// phase 2: the remaining diagnostics go to any free slot; augmenting paths keep matched slots matched
	var fromDetail func(di int, seen []bool) bool
	fromDetail = func(di int, seen []bool) bool {
		for sl := range slots {
			if seen[sl] || !names(details[di], e[slots[sl].exp]) {
				continue
			}
			seen[sl] = true
			if slotOwner[sl] < 0 || fromDetail(slotOwner[sl], seen) {
				slotOwner[sl], detailSlot[di] = di, sl
				return true
			}
		}
		return false
	}
	for di := range details {
		if detailSlot[di] < 0 && !fromDetail(di, make([]bool, len(slots))) {
			unmatched = append(unmatched, details[di])
		}
	}
	for sl, d := range slotOwner {
		if d >= 0 {
			e[slots[sl].exp].used++
		}
	}
	var missing []string
	for _, x := range e {
		if x.used == 0 || (exactCounts && x.used != x.max) {
			missing = append(missing, x.String())
		}
	}
	if len(unmatched) > 0 || len(missing) > 0 {
		var want []string
		for _, x := range exp {
			want = append(want, x.String())
		}
		return fmt.Sprintf("error diagnostics %q do not match the expected %v (unexpected: %q; not reported: %v)", details, want, unmatched, missing)
	}
	return ""
}

// ---------------------------------------------------------------- CopyTo: removed attribute types

type remTree struct {
	removed  map[string]bool
	children map[string]*remTree
}

// removeTypes returns a copy of ot with a drawn subset of attribute types removed at every object level.
func (c *corruptor) removeTypes(b *MsgB, ot types.ObjectType, depth int) (types.ObjectType, *remTree) {
	out := types.ObjectType{AttrTypes: map[string]attr.Type{}}
	rt := &remTree{removed: map[string]bool{}, children: map[string]*remTree{}}
	names := make([]string, 0, len(ot.AttrTypes))
	for n := range ot.AttrTypes {
		names = append(names, n)
	}
	sort.Strings(names)
	for _, n := range names {
		at := ot.AttrTypes[n]
		ab := b.ByName[n]
		if ab == nil {
			out.AttrTypes[n] = at // injected
			continue
		}
		if c.hit() {
			rt.removed[n] = true
			c.sites++
			if depth > 0 {
				c.deep = true
			}
			continue
		}
		if ab.Sub != nil && ab.A.Custom == nil {
			switch x := at.(type) {
			case types.ObjectType:
				nt, sub := c.removeTypes(ab.Sub, x, depth+1)
				at, rt.children[n] = nt, sub
			case types.ListType:
				if eo, ok := x.ElemType.(types.ObjectType); ok {
					nt, sub := c.removeTypes(ab.Sub, eo, depth+1)
					at, rt.children[n] = types.ListType{ElemType: nt}, sub
				}
			case types.MapType:
				if eo, ok := x.ElemType.(types.ObjectType); ok {
					nt, sub := c.removeTypes(ab.Sub, eo, depth+1)
					at, rt.children[n] = types.MapType{ElemType: nt}, sub
				}
			}
		}
		out.AttrTypes[n] = at
	}
	return out, rt
}

// expectWrites lists the diagnostics CopyTo has to report for the removed types that source sv reaches.
func expectWrites(b *MsgB, sv reflect.Value, rem *remTree, out *[]expDiag) {
	for _, ab := range b.Attrs {
		name := ab.A.Name
		if rem.removed[name] {
			e := expDiag{full: ab.A.DiagFull, field: ab.A.DiagSuffix, owner: ab.A.Owner, what: "missing type", max: 1}
			if ab.A.Kind == "placeholder" {
				e.field, e.full = "active", ""
			}
			*out = append(*out, e)
			continue
		}
		sub := rem.children[name]
		if sub == nil || ab.Sub == nil {
			continue
		}
		if ab.UnderNilEmbed(sv) {
			// a message held by value is still written (from its zero value); everything else below a
			// nil embedded parent counts as unset
			if ab.A.Card == "" && !ab.A.Pointer && ab.A.Oneof == "" {
				expectWrites(ab.Sub, reflect.Zero(ab.Typ), sub, out)
			}
			continue
		}
		v, ok := ab.Get(sv)
		var insts []reflect.Value
		if ab.A.Oneof != "" {
			if !ok || v.IsNil() {
				// an inactive message branch is still walked with an empty wrapper: its payload pointer is nil, so nothing below is written
				continue
			}
		}
		if !ok {
			continue
		}
		switch ab.A.Card {
		case "repeated":
			for i := 0; i < v.Len(); i++ {
				insts = append(insts, v.Index(i))
			}
		case "map":
			for _, k := range v.MapKeys() {
				insts = append(insts, v.MapIndex(k))
			}
		default:
			insts = []reflect.Value{v}
		}
		for _, iv := range insts {
			if iv.Kind() == reflect.Ptr {
				if iv.IsNil() {
					continue
				}
				iv = iv.Elem()
			}
			expectWrites(ab.Sub, iv, sub, out)
		}
	}
}

// mergeDiags folds identical expectations into one with max = number of reached writes.
func mergeDiags(in []expDiag) []expDiag {
	idx := map[string]int{}
	var out []expDiag
	for _, e := range in {
		k := e.String()
		if i, ok := idx[k]; ok {
			out[i].max++
			continue
		}
		idx[k] = len(out)
		out = append(out, e)
	}
	return out
}

// sameExceptRemoved compares the corrupt CopyTo result with the clean one outside removed attributes.
func sameExceptRemoved(path string, clean, got *Node, rem *remTree) string {
	if got == nil {
		return path + ": missing"
	}
	if clean.Kind != got.Kind || clean.Null != got.Null || clean.Unknown != got.Unknown {
		return fmt.Sprintf("%s: %s vs %s", path, clean.String(), got.String())
	}
	if clean.Null {
		return ""
	}
	switch clean.Kind {
	case "object":
		for _, k := range clean.SortedAttrs() {
			if rem != nil && rem.removed[k] {
				continue
			}
			var sub *remTree
			if rem != nil {
				sub = rem.children[k]
			}
			if msg := sameExceptRemoved(path+"."+k, clean.Attrs[k], got.Attrs[k], sub); msg != "" {
				return msg
			}
		}
	case "list":
		if len(clean.Elems) != len(got.Elems) {
			return fmt.Sprintf("%s: %d vs %d elements", path, len(clean.Elems), len(got.Elems))
		}
		for i := range clean.Elems {
			if msg := sameExceptRemoved(fmt.Sprintf("%s[%d]", path, i), clean.Elems[i], got.Elems[i], rem); msg != "" {
				return msg
			}
		}
	case "map":
		for _, k := range clean.SortedKeys() {
			if msg := sameExceptRemoved(fmt.Sprintf("%s[%q]", path, k), clean.MapElems[k], got.MapElems[k], rem); msg != "" {
				return msg
			}
		}
	default:
		if !leafEqual(clean, got) {
			return fmt.Sprintf("%s: %s vs %s", path, clean.String(), got.String())
		}
	}
	return ""
}

func propC06(t *rapid.T, e *Env) {
	rc := drawRoot(t, e)
	// ---- CopyFrom on a corrupted object
	obj, err := GenObject(t, rc.Type, rc.B, OOpts{PAbsent: 12})
	if err != nil {
		t.Fatalf("%v", err)
	}
	bad, ref := ToNode(obj), ToNode(obj)
	c := &corruptor{t: t, p: rapid.SampledFrom([]int{3, 8, 20}).Draw(t, "density")}
	c.object(rc.B, bad, ref, 0)
	got, want := rc.New(), rc.New()
	d, p := rc.CopyFrom(bad.Object(), got)
	if p != "" {
		e.Fail(t, "C06 Copy%sFromTerraform panicked on a malformed object: %s; object %s", rc.M.Name, p, bad.String())
	}
	// diag.Diagnostics.Append drops duplicates: identical diagnostics (same path, same kind, e.g. two
	// wrong-typed elements of one list) are reported once, so counts are bounded, not exact.
	if msg := matchDiags(d, mergeDiags(c.exp), false); msg != "" {
		e.Fail(t, "C06 Copy%sFromTerraform: %s; object %s", rc.M.Name, msg, bad.String())
	}
	d2, p2 := rc.CopyFrom(ref.Object(), want)
	if p2 != "" || len(errorDiags(d2)) > 0 {
		e.Fail(t, "C06 CopyFrom failed on the well-formed reference object: %s %v", p2, errorDiags(d2))
	}
	if diff := DiffNF(NF(rc.B, want.Elem()), NF(rc.B, got.Elem())); diff != "" {
		e.Fail(t, "C06 well-formed attributes are not copied as from the uncorrupted object: %s (expected vs got); object %s", diff, bad.String())
	}
	fromSites, fromDeep := c.sites, c.deep
	// ---- CopyTo into an object with attribute types removed
	x := GenStruct(t, rc.B.Typ, VOpts{})
	c2 := &corruptor{t: t, p: rapid.SampledFrom([]int{3, 8, 20}).Draw(t, "density2")}
	cut, rem := c2.removeTypes(rc.B, rc.Type, 0)
	clean := toEmpty(t, e, rc, x, "a generated value")
	target := types.Object{AttrTypes: cut.AttrTypes}
	if rem != nil && len(rem.removed) > 0 && rapid.Bool().Draw(t, "stalevalues") {
		// the values of an earlier state are still stored under the keys whose types were removed at the top level:
		// the missing type is reported all the same (nothing is derived from a stored value)
		target.Attrs = map[string]attr.Value{}
		co := clean.Object()
		for k := range rem.removed {
			if v, ok := co.Attrs[k]; ok {
				target.Attrs[k] = v
			}
		}
	}
	d, p = rc.CopyTo(x, &target)
	if p != "" {
		e.Fail(t, "C06 Copy%sToTerraform panicked on a target with missing attribute types: %s; source %s; removed %s", rc.M.Name, p, describe(rc, x), remString(rem))
	}
	var exp []expDiag
	expectWrites(rc.B, x.Elem(), rem, &exp)
	if msg := matchDiags(d, mergeDiags(exp), false); msg != "" {
		e.Fail(t, "C06 Copy%sToTerraform: %s; source %s; removed %s", rc.M.Name, msg, describe(rc, x), remString(rem))
	}
	if msg := sameExceptRemoved(rc.M.Name, clean, ToNode(target), rem); msg != "" {
		e.Fail(t, "C06 CopyTo does not write the remaining attributes as without the removal: %s; removed %s", msg, remString(rem))
	}
	// ---- CopyTo into a well-typed target that already holds values (null / unknown / known at any depth,
	// as the framework decodes them): "never panics for a non-nil source and target", and no attribute
	// type is missing, so no error is due
	pre, err := GenObject(t, rc.Type, rc.B, OOpts{PAbsent: 45})
	if err != nil {
		t.Fatalf("%v", err)
	}
	// ... half of the time with hand-built collection values among them: a list or map value that carries no
	// element type of its own (the attribute types of the target are complete, the value is what a provider
	// builds by hand: types.List{Null: true})
	if rapid.Bool().Draw(t, "handbuilt") {
		stripElemTypes(t, &pre, 0)
	}
	pn := ToNode(pre)
	d, p = rc.CopyTo(x, &pre)
	if p != "" {
		e.Fail(t, "C06 Copy%sToTerraform panicked on a pre-populated, well-typed target: %s; source %s; target %s", rc.M.Name, p, describe(rc, x), pn.String())
	}
	if errs := errorDiags(d); len(errs) > 0 {
		e.Fail(t, "C06 Copy%sToTerraform returned error diagnostics although no attribute type is missing: %v; source %s; target %s", rc.M.Name, errs, describe(rc, x), pn.String())
	}
	e.Res.Class(fmt.Sprintf("from_corruptions:%d", min(fromSites, 5)))
	e.Res.Class(fmt.Sprintf("to_removed:%d", min(c2.sites, 5)))
	if fromDeep || fromSites >= 2 || c2.deep || c2.sites >= 2 {
		e.Res.Class("deep_or_multiple")
		e.Res.Nontriv(bad.String() + remString(rem) + describe(rc, x))
	}
	e.Res.Sample("corrupted object " + bad.String() + " ; removed types " + remString(rem))
}

// stripElemTypes removes the ElemType of some list and map values below o (in place).
func stripElemTypes(t *rapid.T, o *types.Object, depth int) {
	for _, k := range sortedAttrKeys(o.Attrs) {
		switch v := o.Attrs[k].(type) {
		case types.List:
			if rapid.IntRange(0, 2).Draw(t, "striplist") == 0 {
				v.ElemType = nil
				o.Attrs[k] = v
			}
		case types.Map:
			if rapid.IntRange(0, 2).Draw(t, "stripmap") == 0 {
				v.ElemType = nil
				o.Attrs[k] = v
			}
		case types.Object:
			if depth < 4 && !v.Null && !v.Unknown && v.Attrs != nil {
				stripElemTypes(t, &v, depth+1)
				o.Attrs[k] = v
			}
		}
	}
}

func sortedAttrKeys(m map[string]attr.Value) []string {
	ks := make([]string, 0, len(m))
	for k := range m {
		ks = append(ks, k)
	}
	sort.Strings(ks)
	return ks
}

func min(a, b int) int {
	if a < b {
		return a
	}
	return b
}

func remString(r *remTree) string {
	if r == nil {
		return "{}"
	}
	var parts []string
	var ks []string
	for k := range r.removed {
		ks = append(ks, k)
	}
	sort.Strings(ks)
	for _, k := range ks {
		parts = append(parts, "-"+k)
	}
	ks = ks[:0]
	for k := range r.children {
		ks = append(ks, k)
	}
	sort.Strings(ks)
	for _, k := range ks {
		if s := remString(r.children[k]); s != "{}" {
			parts = append(parts, k+":"+s)
		}
	}
	return "{" + strings.Join(parts, ",") + "}"
}
