package rt

import (
	"context"
	"fmt"
	"sort"
	"time"

	"github.com/hashicorp/terraform-plugin-framework/attr"
	"github.com/hashicorp/terraform-plugin-framework/types"

	"verif/support"
)

// Node is a mutable mirror of an attr.Value tree. It lets the harness build
// things the framework never would (payload under Null, missing attributes,
// wrong-typed values, nil containers) and compare results structurally.
type Node struct {
	Kind    string // object list map string int64 float64 bool time duration custom raw
	Null    bool
	Unknown bool

	S   string
	I   int64
	F   float64
	B   bool
	T   time.Time
	D   time.Duration
	Tag string // time/duration tag, custom suffix
	Ser int64  // custom serial

	Attrs     map[string]*Node
	AttrTypes map[string]attr.Type
	NilAttrs  bool

	Elems    []*Node
	MapElems map[string]*Node
	ElemType attr.Type
	NilElems bool

	Raw    attr.Value // Kind == "raw": used verbatim (may be a nil interface)
	NullDC bool       // expectation trees only: null-ness is not specified here
}

func ToNode(v attr.Value) *Node {
	switch x := v.(type) {
	case types.String:
		return &Node{Kind: "string", Null: x.Null, Unknown: x.Unknown, S: x.Value}
	case types.Int64:
		return &Node{Kind: "int64", Null: x.Null, Unknown: x.Unknown, I: x.Value}
	case types.Float64:
		return &Node{Kind: "float64", Null: x.Null, Unknown: x.Unknown, F: x.Value}
	case types.Bool:
		return &Node{Kind: "bool", Null: x.Null, Unknown: x.Unknown, B: x.Value}
	case support.TimeValue:
		return &Node{Kind: "time", Null: x.Null, Unknown: x.Unknown, T: x.Value, Tag: x.Tag}
	case support.DurationValue:
		return &Node{Kind: "duration", Null: x.Null, Unknown: x.Unknown, D: x.Value, Tag: x.Tag}
	case support.CustomValue:
		return &Node{Kind: "custom", Null: x.Null, Unknown: x.Unknown, S: x.Payload, Tag: x.Suffix, Ser: x.Serial}
	case types.Object:
		n := &Node{Kind: "object", Null: x.Null, Unknown: x.Unknown, AttrTypes: x.AttrTypes, NilAttrs: x.Attrs == nil}
		if x.Attrs != nil {
			n.Attrs = map[string]*Node{}
			for k, a := range x.Attrs {
				n.Attrs[k] = ToNode(a)
			}
		}
		return n
	case types.List:
		n := &Node{Kind: "list", Null: x.Null, Unknown: x.Unknown, ElemType: x.ElemType, NilElems: x.Elems == nil}
		for _, e := range x.Elems {
			n.Elems = append(n.Elems, ToNode(e))
		}
		return n
	case types.Map:
		n := &Node{Kind: "map", Null: x.Null, Unknown: x.Unknown, ElemType: x.ElemType, NilElems: x.Elems == nil}
		if x.Elems != nil {
			n.MapElems = map[string]*Node{}
			for k, e := range x.Elems {
				n.MapElems[k] = ToNode(e)
			}
		}
		return n
	}
	return &Node{Kind: "raw", Raw: v}
}

func (n *Node) Attr() attr.Value {
	switch n.Kind {
	case "string":
		return types.String{Null: n.Null, Unknown: n.Unknown, Value: n.S}
	case "int64":
		return types.Int64{Null: n.Null, Unknown: n.Unknown, Value: n.I}
	case "float64":
		return types.Float64{Null: n.Null, Unknown: n.Unknown, Value: n.F}
	case "bool":
		return types.Bool{Null: n.Null, Unknown: n.Unknown, Value: n.B}
	case "time":
		return support.TimeValue{Null: n.Null, Unknown: n.Unknown, Value: n.T, Tag: n.Tag}
	case "duration":
		return support.DurationValue{Null: n.Null, Unknown: n.Unknown, Value: n.D, Tag: n.Tag}
	case "custom":
		return support.CustomValue{Null: n.Null, Unknown: n.Unknown, Payload: n.S, Suffix: n.Tag, Serial: n.Ser}
	case "object":
		o := types.Object{Null: n.Null, Unknown: n.Unknown, AttrTypes: n.AttrTypes}
		if !n.NilAttrs {
			o.Attrs = map[string]attr.Value{}
			for k, a := range n.Attrs {
				o.Attrs[k] = a.Attr()
			}
		}
		return o
	case "list":
		l := types.List{Null: n.Null, Unknown: n.Unknown, ElemType: n.ElemType}
		if !n.NilElems {
			l.Elems = make([]attr.Value, len(n.Elems))
			for i, e := range n.Elems {
				l.Elems[i] = e.Attr()
			}
		}
		return l
	case "map":
		m := types.Map{Null: n.Null, Unknown: n.Unknown, ElemType: n.ElemType}
		if !n.NilElems {
			m.Elems = map[string]attr.Value{}
			for k, e := range n.MapElems {
				m.Elems[k] = e.Attr()
			}
		}
		return m
	}
	return n.Raw
}

func (n *Node) Object() types.Object { return n.Attr().(types.Object) }

// Clone deep-copies the node tree (attr.Type values are immutable and shared).
func (n *Node) Clone() *Node {
	if n == nil {
		return nil
	}
	c := *n
	if n.Attrs != nil {
		c.Attrs = map[string]*Node{}
		for k, a := range n.Attrs {
			c.Attrs[k] = a.Clone()
		}
	}
	if n.AttrTypes != nil {
		c.AttrTypes = map[string]attr.Type{}
		for k, t := range n.AttrTypes {
			c.AttrTypes[k] = t
		}
	}
	if n.Elems != nil {
		c.Elems = make([]*Node, len(n.Elems))
		for i, e := range n.Elems {
			c.Elems[i] = e.Clone()
		}
	}
	if n.MapElems != nil {
		c.MapElems = map[string]*Node{}
		for k, e := range n.MapElems {
			c.MapElems[k] = e.Clone()
		}
	}
	return &c
}

func (n *Node) Absent() bool { return n.Null || n.Unknown }

// SortedAttrs returns attribute names in sorted order (oracles never depend on map order).
func (n *Node) SortedAttrs() []string {
	ks := make([]string, 0, len(n.Attrs))
	for k := range n.Attrs {
		ks = append(ks, k)
	}
	sort.Strings(ks)
	return ks
}

func (n *Node) SortedKeys() []string {
	ks := make([]string, 0, len(n.MapElems))
	for k := range n.MapElems {
		ks = append(ks, k)
	}
	sort.Strings(ks)
	return ks
}

// String renders the tree compactly for messages and samples.
func (n *Node) String() string {
	if n == nil {
		return "<missing>"
	}
	st := ""
	if n.Null {
		st = "null"
	}
	if n.Unknown {
		st += "unknown"
	}
	switch n.Kind {
	case "string":
		if st != "" && n.S == "" {
			return st
		}
		s := n.S
		if len(s) > 24 {
			s = s[:24] + "…"
		}
		return fmt.Sprintf("%s%q", st, s)
	case "int64":
		if st != "" && n.I == 0 {
			return st
		}
		return fmt.Sprintf("%s%d", st, n.I)
	case "float64":
		if st != "" && n.F == 0 {
			return st
		}
		return fmt.Sprintf("%s%g", st, n.F)
	case "bool":
		if st != "" && !n.B {
			return st
		}
		return fmt.Sprintf("%s%v", st, n.B)
	case "time":
		if st != "" {
			return st
		}
		return "t:" + support.FormatTime(n.T)
	case "duration":
		if st != "" {
			return st
		}
		return fmt.Sprintf("d:%d", int64(n.D))
	case "custom":
		return fmt.Sprintf("%scustom(%s:%s)", st, n.Tag, n.S)
	case "object":
		s := st + "{"
		for i, k := range n.SortedAttrs() {
			if i > 0 {
				s += ","
			}
			s += k + ":" + n.Attrs[k].String()
		}
		return s + "}"
	case "list":
		s := st + "["
		for i, e := range n.Elems {
			if i > 0 {
				s += ","
			}
			s += e.String()
		}
		return s + "]"
	case "map":
		s := st + "map{"
		for i, k := range n.SortedKeys() {
			if i > 0 {
				s += ","
			}
			s += fmt.Sprintf("%q:%s", k, n.MapElems[k].String())
		}
		return s + "}"
	}
	return fmt.Sprintf("raw(%T)", n.Raw)
}

// EmptyObject is an object that carries the attribute types of the schema and no values.
func EmptyObject(t attr.Type) types.Object {
	ot := t.(types.ObjectType)
	return types.Object{AttrTypes: ot.AttrTypes}
}

var bg = context.Background()
