package rt

import (
	"fmt"
	"reflect"
	"sort"
	"strings"

	"github.com/hashicorp/terraform-plugin-framework/attr"
	"github.com/hashicorp/terraform-plugin-framework/tfsdk"
	"github.com/hashicorp/terraform-plugin-framework/types"
	"github.com/hashicorp/terraform-plugin-go/tftypes"
	"pgregory.net/rapid"
)

// Differential properties: two variants of the same descriptor (another package
// layout, a permuted declaration order, one more configuration entry) are linked
// into one binary and driven with the same neutral inputs.

func init() {
	inner["C11"] = propDiff
	inner["C13"] = propDiff
	inner["C15"] = propDiff
}

// convertValue copies src into a new value of type dt, matching struct fields by
// proto field name (the two struct types may come from different packages).
func convertValue(src reflect.Value, dt reflect.Type) reflect.Value {
	if src.Type() == dt {
		return deepCopy(src)
	}
	out := reflect.New(dt).Elem()
	switch src.Kind() {
	case reflect.Ptr:
		if !src.IsNil() {
			p := reflect.New(dt.Elem())
			p.Elem().Set(convertValue(src.Elem(), dt.Elem()))
			out.Set(p)
		}
	case reflect.Slice:
		if !src.IsNil() {
			s := reflect.MakeSlice(dt, src.Len(), src.Len())
			for i := 0; i < src.Len(); i++ {
				s.Index(i).Set(convertValue(src.Index(i), dt.Elem()))
			}
			out.Set(s)
		}
	case reflect.Map:
		if !src.IsNil() {
			m := reflect.MakeMap(dt)
			it := src.MapRange()
			for it.Next() {
				m.SetMapIndex(it.Key().Convert(dt.Key()), convertValue(it.Value(), dt.Elem()))
			}
			out.Set(m)
		}
	case reflect.Struct:
		if src.Type() == timeType {
			out.Set(src)
			break
		}
		sf, df := structFields(src.Type()), structFields(dt)
		for name, sr := range sf {
			dr, ok := df[name]
			if !ok {
				panic(fmt.Sprintf("harness: field %s missing in %s", name, dt))
			}
			if sr.oneof != nil {
				h := src.Field(sr.oneof.holder)
				if h.IsNil() || h.Elem().Type() != sr.oneof.wrapper || h.Elem().IsNil() {
					continue
				}
				w := reflect.New(dr.oneof.wrapper.Elem())
				w.Elem().Field(0).Set(convertValue(h.Elem().Elem().Field(0), dr.typ))
				out.Field(dr.oneof.holder).Set(w)
				continue
			}
			out.Field(dr.index).Set(convertValue(src.Field(sr.index), dr.typ))
		}
	default:
		out.Set(src.Convert(dt))
	}
	return out
}

// keyed re-keys an object node by proto field chains, recursively.
type keyedNode struct {
	N     *Node
	Attrs map[string]*keyedNode // for objects (via the message binding)
	Elems []*keyedNode
	Map   map[string]*keyedNode
}

func keyed(b *MsgB, n *Node) *keyedNode {
	out := &keyedNode{N: n}
	if n == nil || n.Kind != "object" || n.Absent() || b == nil {
		return out
	}
	out.Attrs = map[string]*keyedNode{}
	for _, ab := range b.Attrs {
		an := n.Attrs[ab.A.Name]
		key := ab.Key()
		if ab.A.Kind == "placeholder" {
			key = "(placeholder)"
		}
		if an == nil {
			continue
		}
		k := &keyedNode{N: an}
		if ab.Sub != nil && ab.A.Custom == nil {
			switch an.Kind {
			case "object":
				k = keyed(ab.Sub, an)
			case "list":
				for _, e := range an.Elems {
					k.Elems = append(k.Elems, keyed(ab.Sub, e))
				}
			case "map":
				k.Map = map[string]*keyedNode{}
				for mk, e := range an.MapElems {
					k.Map[mk] = keyed(ab.Sub, e)
				}
			}
		}
		out.Attrs[key] = k
	}
	return out
}

// diffKeyed compares two keyed trees on the keys present in both.
func diffKeyed(path string, a, b *keyedNode, out *[]string) {
	if a == nil || b == nil || a.N == nil || b.N == nil {
		return
	}
	if a.Attrs != nil || b.Attrs != nil {
		if a.N.Kind != b.N.Kind || a.N.Null != b.N.Null || a.N.Unknown != b.N.Unknown {
			*out = append(*out, fmt.Sprintf("%s: %s vs %s", path, a.N.String(), b.N.String()))
			return
		}
		keys := make([]string, 0, len(a.Attrs))
		for k := range a.Attrs {
			if _, ok := b.Attrs[k]; ok {
				keys = append(keys, k)
			}
		}
		sort.Strings(keys)
		for _, k := range keys {
			diffKeyed(path+"."+k, a.Attrs[k], b.Attrs[k], out)
		}
		return
	}
	if a.Elems != nil || b.Elems != nil {
		if len(a.Elems) != len(b.Elems) || a.N.Null != b.N.Null {
			*out = append(*out, fmt.Sprintf("%s: %s vs %s", path, a.N.String(), b.N.String()))
			return
		}
		for i := range a.Elems {
			diffKeyed(fmt.Sprintf("%s[%d]", path, i), a.Elems[i], b.Elems[i], out)
		}
		return
	}
	if a.Map != nil || b.Map != nil {
		if len(a.Map) != len(b.Map) || a.N.Null != b.N.Null {
			*out = append(*out, fmt.Sprintf("%s: %s vs %s", path, a.N.String(), b.N.String()))
			return
		}
		keys := make([]string, 0, len(a.Map))
		for k := range a.Map {
			keys = append(keys, k)
		}
		sort.Strings(keys)
		for _, k := range keys {
			bv, ok := b.Map[k]
			if !ok {
				*out = append(*out, fmt.Sprintf("%s[%q]: missing", path, k))
				continue
			}
			diffKeyed(fmt.Sprintf("%s[%q]", path, k), a.Map[k], bv, out)
		}
		return
	}
	var d []string
	diffNodes(path, a.N, b.N, &d)
	for _, x := range d {
		*out = append(*out, fmt.Sprintf("%s: %s vs %s", x, a.N.String(), b.N.String()))
	}
}

// translate rebuilds object n0 (of message b0) for the schema of b1: attributes are matched by
// proto field chain; attributes only b1 has (injected ones aside) are null.
func translate(n0 *Node, b0, b1 *MsgB, t1 types.ObjectType) *Node {
	out := &Node{Kind: "object", Null: n0.Null, Unknown: n0.Unknown, AttrTypes: t1.AttrTypes, NilAttrs: n0.NilAttrs}
	if n0.NilAttrs {
		return out
	}
	out.Attrs = map[string]*Node{}
	byKey := map[string]*AttrB{}
	for _, ab := range b0.Attrs {
		k := ab.Key()
		if ab.A.Kind == "placeholder" {
			k = "(placeholder)"
		}
		byKey[k] = ab
	}
	inModel := map[string]bool{}
	for _, ab1 := range b1.Attrs {
		inModel[ab1.A.Name] = true
		k := ab1.Key()
		if ab1.A.Kind == "placeholder" {
			k = "(placeholder)"
		}
		ab0 := byKey[k]
		at := t1.AttrTypes[ab1.A.Name]
		var src *Node
		if ab0 != nil {
			src = n0.Attrs[ab0.A.Name]
		}
		if src == nil {
			if ab0 != nil {
				continue // deleted in the source: stays deleted
			}
			if at != nil {
				if v, err := at.ValueFromTerraform(bg, tftypes.NewValue(at.TerraformType(bg), nil)); err == nil {
					out.Attrs[ab1.A.Name] = ToNode(v)
				}
			}
			continue
		}
		c := src.Clone()
		if ab1.Sub != nil && ab1.A.Custom == nil && ab0.Sub != nil {
			switch x := at.(type) {
			case types.ObjectType:
				if src.Kind == "object" {
					c = translate(src, ab0.Sub, ab1.Sub, x)
				}
			case types.ListType:
				if eo, ok := x.ElemType.(types.ObjectType); ok && src.Kind == "list" {
					c.ElemType = x.ElemType
					for i, e := range src.Elems {
						if e.Kind == "object" {
							c.Elems[i] = translate(e, ab0.Sub, ab1.Sub, eo)
						}
					}
				}
			case types.MapType:
				if eo, ok := x.ElemType.(types.ObjectType); ok && src.Kind == "map" {
					c.ElemType = x.ElemType
					for mk, e := range src.MapElems {
						if e.Kind == "object" {
							c.MapElems[mk] = translate(e, ab0.Sub, ab1.Sub, eo)
						}
					}
				}
			}
		}
		out.Attrs[ab1.A.Name] = c
	}
	// injected attributes of the target schema: null
	for name, at := range t1.AttrTypes {
		if inModel[name] {
			continue
		}
		if v, err := at.ValueFromTerraform(bg, tftypes.NewValue(at.TerraformType(bg), nil)); err == nil {
			out.Attrs[name] = ToNode(v)
		}
	}
	return out
}

// schemaDiff compares two run-time attribute maps (C13 / C15: schemas must be equal).
func schemaDiff(path string, a, b map[string]tfsdk.Attribute) string {
	if len(a) != len(b) {
		return fmt.Sprintf("%s: %d vs %d attributes", path, len(a), len(b))
	}
	names := make([]string, 0, len(a))
	for n := range a {
		names = append(names, n)
	}
	sort.Strings(names)
	for _, n := range names {
		x, y := a[n], b[n]
		p := path + "." + n
		if _, ok := b[n]; !ok {
			return p + ": only in the first variant"
		}
		if (x.Type == nil) != (y.Type == nil) || (x.Type != nil && !x.Type.Equal(y.Type)) {
			return fmt.Sprintf("%s: type %s vs %s", p, typeName(x.Type), typeName(y.Type))
		}
		if (x.Attributes == nil) != (y.Attributes == nil) {
			return p + ": nested attributes in one variant only"
		}
		if x.Attributes != nil {
			if x.Attributes.GetNestingMode() != y.Attributes.GetNestingMode() {
				return p + ": nesting mode differs"
			}
			if msg := schemaDiff(p, x.Attributes.GetAttributes(), y.Attributes.GetAttributes()); msg != "" {
				return msg
			}
		}
		if x.Required != y.Required || x.Optional != y.Optional || x.Computed != y.Computed || x.Sensitive != y.Sensitive {
			return p + ": flags differ"
		}
		if x.Description != y.Description {
			return fmt.Sprintf("%s: description %q vs %q", p, x.Description, y.Description)
		}
		if !eqStrings(validatorIDs(x.Validators), validatorIDs(y.Validators)) || !eqStrings(planModifierIDs(x.PlanModifiers), planModifierIDs(y.PlanModifiers)) {
			return p + ": validators / plan modifiers differ"
		}
	}
	return ""
}

// excludedOnlyIn returns the chains excluded in b1 but not in b0 (C11 exclusion entries), at root level.
func excludedChains(b *MsgB) map[string][]fieldRef {
	out := map[string][]fieldRef{}
	for i, e := range b.M.Excluded {
		out[strings.Join(e.Chain, ".")] = b.Excluded[i]
	}
	return out
}

func propDiff(t *rapid.T, e *Env) {
	prop := e.Spec.Prop
	r0s, r1s := e.ByVar["v0"], e.ByVar["v1"]
	if len(r0s) == 0 || len(r0s) != len(r1s) {
		t.Fatalf("harness: variants v0/v1 not registered symmetrically")
	}
	i := rapid.IntRange(0, len(r0s)-1).Draw(t, "root")
	a := r0s[i]
	var b *RootCtx
	for _, r := range r1s {
		if r.M.Name == a.M.Name {
			b = r
		}
	}
	if b == nil {
		t.Fatalf("harness: root %s missing in v1", a.M.Name)
	}
	what := map[string]string{"C11": "with and without the configuration entry", "C13": "same-package and separate-package", "C15": "original and permuted declaration order"}[prop]
	// schemas
	if prop == "C11" {
		for _, rc := range []*RootCtx{a, b} {
			n := 0
			if msg := checkSchemaAttrs(rc.M.Name, rc.Schema.Attributes, rc.M, rc.Mdl, schemaMode{names: true, flags: true}, &n); msg != "" {
				e.Fail(t, "C11 (%s) %s", rc.R.Variant, msg)
			}
		}
	} else if msg := schemaDiff(a.M.Name, a.Schema.Attributes, b.Schema.Attributes); msg != "" {
		e.Fail(t, "%s schemas differ (%s): %s", prop, what, msg)
	}
	// CopyTo on the same neutral value
	x0 := GenStruct(t, a.B.Typ, VOpts{})
	x1 := reflect.New(b.B.Typ)
	x1.Elem().Set(convertValue(x0.Elem(), b.B.Typ))
	n0 := toEmpty(t, e, a, x0, "a generated value (v0)")
	n1 := toEmpty(t, e, b, x1, "the same value (v1)")
	var diffs []string
	diffKeyed(a.M.Name, keyed(a.B, n0), keyed(b.B, n1), &diffs)
	if len(diffs) > 0 {
		e.Fail(t, "%s CopyTo results differ (%s): %v; source %s", prop, what, firstStrings(diffs, 4), describe(a, x0))
	}
	if prop != "C11" {
		var d2 []string
		diffNodes(a.M.Name, n0, n1, &d2)
		if len(d2) > 0 {
			e.Fail(t, "%s CopyTo results differ (%s) at %v; source %s", prop, what, firstStrings(d2, 4), describe(a, x0))
		}
	}
	// CopyFrom on the same object (translated by proto field chain), into the same populated target
	obj, err := GenObject(t, a.Type, a.B, OOpts{OneofExclusive: true, PAbsent: 25})
	if err != nil {
		t.Fatalf("%v", err)
	}
	o0 := ToNode(obj)
	corrupted := false
	if rapid.IntRange(0, 2).Draw(t, "corrupt?") == 0 {
		c := &corruptor{t: t, p: 10}
		c.object(a.B, o0, o0.Clone(), 0)
		corrupted = c.sites > 0
	}
	o1 := translate(o0, a.B, b.B, b.Type)
	t0 := GenStruct(t, a.B.Typ, VOpts{})
	t1 := reflect.New(b.B.Typ)
	t1.Elem().Set(convertValue(t0.Elem(), b.B.Typ))
	prior1 := cloneStruct(t1)
	d0, p0 := a.CopyFrom(o0.Object(), t0)
	d1, p1 := b.CopyFrom(o1.Object(), t1)
	if (p0 != "") != (p1 != "") {
		e.Fail(t, "%s CopyFrom panics in one variant only (%s): %q vs %q; object %s", prop, what, p0, p1, o0.String())
	}
	if p0 != "" {
		return // both panic on a malformed object: C06's business
	}
	// fields present in both models must agree
	nf0, nf1 := NF(a.B, t0.Elem()), NF(b.B, t1.Elem())
	pruneCommon(nf0, nf1)
	if diff := DiffNF(nf0, nf1); diff != "" {
		e.Fail(t, "%s CopyFrom results differ (%s): %s; object %s", prop, what, diff, o0.String())
	}
	if prop == "C11" {
		// a field excluded only in v1 is never written
		ex0, ex1 := excludedChains(a.B), excludedChains(b.B)
		for k := range ex1 {
			if _, ok := ex0[k]; ok {
				continue
			}
			after := excludedSnapshot(b.B, t1.Elem())
			before := excludedSnapshot(b.B, prior1.Elem())
			if !reflect.DeepEqual(before, after) {
				e.Fail(t, "C11 the excluded field %s was written by CopyFrom: %v -> %v", k, before, after)
			}
		}
		if len(errorDiags(d0)) != len(errorDiags(d1)) && !corrupted {
			e.Fail(t, "C11 diagnostics differ on a conforming object: %v vs %v", errorDiags(d0), errorDiags(d1))
		}
	} else {
		s0, s1 := diagStrings(d0), diagStrings(d1)
		if strings.Join(s0, "\n") != strings.Join(s1, "\n") {
			e.Fail(t, "%s diagnostics differ (%s): %v vs %v; object %s", prop, what, s0, s1, o0.String())
		}
	}
	if corrupted {
		e.Res.Class("corrupted_object")
	}
	var c vclass
	_, nz := classify(a.B, x0.Elem(), 0, &c)
	if nz {
		e.Res.Nontriv(describe(a, x0) + o0.String())
	}
	e.Res.Sample(describe(a, x0) + " ; object " + o0.String())
	_ = attr.Value(nil)
}

func firstStrings(s []string, n int) []string {
	if len(s) > n {
		return s[:n]
	}
	return s
}

// pruneCommon removes, at every depth, the object keys only one of the two normal forms has
// (fields excluded in one variant only).
func pruneCommon(a, b interface{}) {
	switch x := a.(type) {
	case NFObj:
		y, ok := b.(NFObj)
		if !ok {
			return
		}
		for k := range x {
			if _, ok := y[k]; !ok {
				delete(x, k)
			}
		}
		for k := range y {
			if _, ok := x[k]; !ok {
				delete(y, k)
			}
		}
		for k := range x {
			pruneCommon(x[k], y[k])
		}
	case NFList:
		y, ok := b.(NFList)
		if !ok || len(x) != len(y) {
			return
		}
		for i := range x {
			pruneCommon(x[i], y[i])
		}
	case NFMap:
		y, ok := b.(NFMap)
		if !ok {
			return
		}
		for k := range x {
			if yv, ok := y[k]; ok {
				pruneCommon(x[k], yv)
			}
		}
	}
}
