package rt

import (
	"encoding/json"
	"fmt"
	"math"
	"math/big"
	"sort"
	"strconv"

	"github.com/hashicorp/terraform-plugin-framework/attr"
	"github.com/hashicorp/terraform-plugin-framework/types"
	"github.com/hashicorp/terraform-plugin-go/tftypes"
	"pgregory.net/rapid"

	"verif/support"
)

// OOpts steers the generator of conforming Terraform objects O(S) / plans P(S) (DESIGN.md §3.4).
type OOpts struct {
	Plan           bool // P(S): at most one non-null member per oneof, no null elements, numbers within the Go field's range
	OneofExclusive bool // at most one known non-null member per oneof group; the others are null or unknown
	PAbsent        int  // percentage of nodes that are null or unknown (default 30)
	NoUnknown      bool
	KnownZeroBias  bool // known zero values ("" / 0 / false / empty list) are frequent (C08)
	KeyPool        []string
}

type ogen struct {
	t *rapid.T
	o OOpts
	v *vgen
}

const (
	stKnown = iota
	stNull
	stUnknown
)

func (g *ogen) state() int {
	p := g.o.PAbsent
	if p == 0 {
		p = 30
	}
	k := rapid.IntRange(0, 99).Draw(g.t, "state")
	if k >= p {
		return stKnown
	}
	if g.o.NoUnknown || k%2 == 0 {
		return stNull
	}
	return stUnknown
}

func absent(typ tftypes.Type, st int) tftypes.Value {
	if st == stUnknown {
		return tftypes.NewValue(typ, tftypes.UnknownValue)
	}
	return tftypes.NewValue(typ, nil)
}

func bigInt(i int64) *big.Float { return new(big.Float).SetInt64(i) }

func (g *ogen) intFor(goScalar string) int64 {
	t := g.t
	if g.o.KnownZeroBias && rapid.IntRange(0, 2).Draw(t, "zint") == 0 {
		return 0
	}
	small := rapid.Bool().Draw(t, "smallint")
	switch goScalar {
	case "int32":
		if small {
			return int64(rapid.Int32Range(-3, 9).Draw(t, "i"))
		}
		return int64(rapid.Int32().Draw(t, "i"))
	case "uint32":
		if small {
			return int64(rapid.Uint32Range(0, 9).Draw(t, "i"))
		}
		return int64(rapid.Uint32().Draw(t, "i"))
	case "uint64":
		if small {
			return rapid.Int64Range(0, 9).Draw(t, "i")
		}
		return rapid.Int64Range(0, math.MaxInt64).Draw(t, "i")
	case "any":
		if small {
			return rapid.Int64Range(-3, 9).Draw(t, "i")
		}
		return rapid.Int64().Draw(t, "i")
	default:
		if small {
			return rapid.Int64Range(-3, 9).Draw(t, "i")
		}
		return rapid.Int64().Draw(t, "i")
	}
}

// leaf generates a known value of a primitive attribute type.
func (g *ogen) leaf(typ attr.Type, ab *AttrB) tftypes.Value {
	t := g.t
	goScalar := "any"
	if ab != nil && (g.o.Plan || true) {
		// Values always fit the Go field: a configuration with 2^40 in an int32 field is
		// outside what any property here speaks about.
		goScalar = ab.A.GoScalar
		if ab.A.Kind == "enum" {
			goScalar = "int32"
		}
	}
	switch x := typ.(type) {
	case support.TimeType:
		return tftypes.NewValue(tftypes.String, support.FormatTime(g.v.genTime()))
	case support.DurationType:
		d := rapid.Int64().Draw(t, "dur")
		if g.o.KnownZeroBias && rapid.IntRange(0, 2).Draw(t, "zdur") == 0 {
			d = 0
		}
		return tftypes.NewValue(tftypes.String, strconv.FormatInt(d, 10))
	case support.CustomType:
		payload := "null"
		if ab != nil {
			b, _ := json.Marshal(g.v.value(ab.Typ, 3).Interface())
			payload = string(b)
		}
		return tftypes.NewValue(tftypes.String, payload)
	default:
		_ = x
	}
	switch {
	case typ.Equal(types.StringType):
		if g.o.KnownZeroBias && rapid.IntRange(0, 2).Draw(t, "zstr") == 0 {
			return tftypes.NewValue(tftypes.String, "")
		}
		return tftypes.NewValue(tftypes.String, g.v.genString())
	case typ.Equal(types.BoolType):
		return tftypes.NewValue(tftypes.Bool, rapid.Bool().Draw(t, "b"))
	case typ.Equal(types.Int64Type):
		return tftypes.NewValue(tftypes.Number, bigInt(g.intFor(goScalar)))
	case typ.Equal(types.Float64Type):
		if g.o.KnownZeroBias && rapid.IntRange(0, 2).Draw(t, "zf") == 0 {
			return tftypes.NewValue(tftypes.Number, big.NewFloat(0))
		}
		if goScalar == "float32" {
			return tftypes.NewValue(tftypes.Number, big.NewFloat(float64(rapid.Float32().Draw(t, "f32"))))
		}
		return tftypes.NewValue(tftypes.Number, big.NewFloat(rapid.Float64().Draw(t, "f64")))
	}
	panic(fmt.Sprintf("harness: cannot generate a value of attribute type %s", typ))
}

// value generates a tftypes.Value of attribute type typ at the position of ab (nil for injected attributes).
func (g *ogen) value(typ attr.Type, ab *AttrB, st int, depth int, elem bool) tftypes.Value {
	tt := typ.TerraformType(bg)
	if st != stKnown {
		return absent(tt, st)
	}
	switch x := typ.(type) {
	case types.ObjectType:
		var mb *MsgB
		if ab != nil {
			mb = ab.Sub
		}
		return g.object(x, mb, depth+1)
	case types.ListType:
		max := 4
		if depth >= 2 {
			max = 2
		}
		n := rapid.IntRange(0, max).Draw(g.t, "listn")
		if g.o.KnownZeroBias && rapid.IntRange(0, 2).Draw(g.t, "zlist") == 0 {
			n = 0
		}
		elems := make([]tftypes.Value, n)
		for i := range elems {
			es := stKnown
			if !g.o.Plan {
				es = g.state()
			} else if rapid.IntRange(0, 6).Draw(g.t, "unkelem") == 0 {
				es = stUnknown // plans have no null elements, but unknown ones are allowed
			}
			elems[i] = g.value(x.ElemType, ab, es, depth+1, true)
		}
		return tftypes.NewValue(tt, elems)
	case types.MapType:
		max := 3
		if depth >= 2 {
			max = 2
		}
		n := rapid.IntRange(0, max).Draw(g.t, "mapn")
		elems := map[string]tftypes.Value{}
		for i := 0; i < n; i++ {
			var key string
			if k := rapid.IntRange(0, 6).Draw(g.t, "keyk"); k == 0 {
				key = rapid.String().Draw(g.t, "ukey")
			} else if k == 1 && len(g.o.KeyPool) > 0 {
				key = rapid.SampledFrom(g.o.KeyPool).Draw(g.t, "poolkey")
			} else {
				key = rapid.StringMatching(`[a-z]{0,3}`).Draw(g.t, "key")
			}
			es := stKnown
			if !g.o.Plan {
				es = g.state()
			} else if rapid.IntRange(0, 6).Draw(g.t, "unkelem") == 0 {
				es = stUnknown
			}
			elems[key] = g.value(x.ElemType, ab, es, depth+1, true)
		}
		return tftypes.NewValue(tt, elems)
	}
	return g.leaf(typ, ab)
}

func (g *ogen) object(ot types.ObjectType, mb *MsgB, depth int) tftypes.Value {
	names := make([]string, 0, len(ot.AttrTypes))
	for k := range ot.AttrTypes {
		names = append(names, k)
	}
	sort.Strings(names)
	// oneof groups: pick at most one member that may be non-null
	chosen := map[string]string{}
	if mb != nil && (g.o.Plan || g.o.OneofExclusive) {
		groups := map[string][]string{}
		for _, n := range names {
			if ab := mb.ByName[n]; ab != nil && ab.A.Oneof != "" {
				groups[ab.GroupKey()] = append(groups[ab.GroupKey()], n)
			}
		}
		gk := make([]string, 0, len(groups))
		for k := range groups {
			gk = append(gk, k)
		}
		sort.Strings(gk)
		for _, k := range gk {
			i := rapid.IntRange(0, len(groups[k])).Draw(g.t, "member")
			if i == 0 {
				chosen[k] = ""
			} else {
				chosen[k] = groups[k][i-1]
			}
		}
	}
	vals := map[string]tftypes.Value{}
	for _, n := range names {
		var ab *AttrB
		if mb != nil {
			ab = mb.ByName[n]
		}
		st := g.state()
		if ab != nil && ab.A.Oneof != "" && (g.o.Plan || g.o.OneofExclusive) {
			if chosen[ab.GroupKey()] == n {
				st = stKnown
				if g.o.Plan && rapid.IntRange(0, 4).Draw(g.t, "planunk") == 0 {
					st = stUnknown
				}
			} else if g.o.Plan || g.o.NoUnknown || rapid.Bool().Draw(g.t, "othernull") {
				st = stNull
			} else {
				st = stUnknown
			}
		}
		vals[n] = g.value(ot.AttrTypes[n], ab, st, depth, false)
	}
	return tftypes.NewValue(ot.TerraformType(bg), vals)
}

// GenObject draws a conforming Terraform object for the schema type, decoded the way the framework decodes it.
func GenObject(t *rapid.T, schemaType attr.Type, mb *MsgB, o OOpts) (types.Object, error) {
	if o.KeyPool == nil && mb != nil {
		o.KeyPool = attrNamePool(mb)
	}
	g := &ogen{t: t, o: o, v: &vgen{t: t, o: VOpts{KeyPool: o.KeyPool}}}
	ot := schemaType.(types.ObjectType)
	tv := g.object(ot, mb, 0)
	v, err := schemaType.ValueFromTerraform(bg, tv)
	if err != nil {
		return types.Object{}, fmt.Errorf("harness: framework rejected a generated value: %v", err)
	}
	return v.(types.Object), nil
}

var poolCache = map[*MsgB][]string{}

// attrNamePool lists the attribute names of a bound message tree (sorted, de-duplicated).
func attrNamePool(b *MsgB) []string {
	if p, ok := poolCache[b]; ok {
		return p
	}
	set := map[string]bool{}
	var walk func(b *MsgB)
	walk = func(b *MsgB) {
		for _, ab := range b.Attrs {
			set[ab.A.Name] = true
			if ab.Sub != nil {
				walk(ab.Sub)
			}
		}
	}
	walk(b)
	out := make([]string, 0, len(set))
	for k := range set {
		out = append(out, k)
	}
	sort.Strings(out)
	poolCache[b] = out
	return out
}
