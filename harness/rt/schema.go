package rt

import (
	"fmt"
	"sort"
	"strings"

	"github.com/hashicorp/terraform-plugin-framework/attr"
	"github.com/hashicorp/terraform-plugin-framework/tfsdk"
	"github.com/hashicorp/terraform-plugin-framework/types"

	"verif/model"
	"verif/support"
)

// ExpLeafType is the documented Terraform type of a value position.
func ExpLeafType(a *model.Attr, mdl *model.Model) attr.Type {
	switch a.TF {
	case model.TInt64:
		return types.Int64Type
	case model.TFloat64:
		return types.Float64Type
	case model.TBool:
		return types.BoolType
	case model.TString:
		return types.StringType
	case model.TTime:
		if mdl.TimeCtor {
			return support.TimeType{Tag: "ctor"}
		}
		return support.TimeType{}
	case model.TDuration:
		if mdl.DurationCtor {
			return support.DurationType{Tag: "ctor"}
		}
		return support.DurationType{}
	case model.TCustom:
		return support.CustomType{Suffix: a.Custom.Suffix}
	case model.TObject:
		return ExpObjectType(a.Msg, mdl)
	}
	panic("unknown TF kind " + a.TF)
}

// ExpType is the documented attribute type (with list / map wrapping).
func ExpType(a *model.Attr, mdl *model.Model) attr.Type {
	if a.Custom != nil {
		return support.CustomType{Suffix: a.Custom.Suffix}
	}
	leaf := ExpLeafType(a, mdl)
	switch a.Card {
	case "repeated":
		return types.ListType{ElemType: leaf}
	case "map":
		return types.MapType{ElemType: leaf}
	}
	return leaf
}

func injectedType(s string) attr.Type {
	switch {
	case strings.HasSuffix(s, "types.StringType"):
		return types.StringType
	case strings.HasSuffix(s, "types.Int64Type"):
		return types.Int64Type
	case strings.HasSuffix(s, "types.BoolType"):
		return types.BoolType
	case strings.HasSuffix(s, "types.Float64Type"):
		return types.Float64Type
	case strings.HasSuffix(s, "support.UseTime()"):
		return support.UseTime()
	}
	panic("unknown injected type " + s)
}

func ExpObjectType(m *model.Msg, mdl *model.Model) types.ObjectType {
	at := map[string]attr.Type{}
	for _, a := range m.Attrs {
		at[a.Name] = ExpType(a, mdl)
	}
	for _, i := range m.Injected {
		at[i.Name] = injectedType(i.Type)
	}
	return types.ObjectType{AttrTypes: at}
}

func validatorIDs(vs []tfsdk.AttributeValidator) []string {
	var out []string
	for _, v := range vs {
		switch x := v.(type) {
		case support.Validator:
			if x.Arg != "" {
				out = append(out, "verif/support."+x.Arg)
			} else {
				out = append(out, fmt.Sprintf("verif/support.V(%d)", x.ID))
			}
		default:
			out = append(out, fmt.Sprintf("%T", v))
		}
	}
	return out
}

func planModifierIDs(vs tfsdk.AttributePlanModifiers) []string {
	var out []string
	for _, v := range vs {
		switch x := v.(type) {
		case support.PlanModifier:
			if x.Arg != "" {
				out = append(out, "verif/support."+x.Arg)
			} else {
				out = append(out, fmt.Sprintf("verif/support.PM(%d)", x.ID))
			}
		case tfsdk.RequiresReplaceModifier:
			out = append(out, "github.com/hashicorp/terraform-plugin-framework/tfsdk.RequiresReplace()")
		case tfsdk.UseStateForUnknownModifier:
			out = append(out, "github.com/hashicorp/terraform-plugin-framework/tfsdk.UseStateForUnknown()")
		default:
			out = append(out, fmt.Sprintf("%T", v))
		}
	}
	return out
}

type schemaMode struct {
	names bool // C02: attribute set, names and types
	flags bool // C10: flags, validators, plan modifiers, descriptions, injected fields, placeholder
}

func eqStrings(a, b []string) bool {
	if len(a) != len(b) {
		return false
	}
	for i := range a {
		if a[i] != b[i] {
			return false
		}
	}
	return true
}

// checkSchemaAttrs walks run-time attributes against the model; returns the first disagreement.
func checkSchemaAttrs(path string, attrs map[string]tfsdk.Attribute, m *model.Msg, mdl *model.Model, mode schemaMode, count *int) string {
	want := map[string]bool{}
	for _, a := range m.Attrs {
		want[a.Name] = true
	}
	for _, i := range m.Injected {
		want[i.Name] = true
	}
	names := make([]string, 0, len(attrs))
	for n := range attrs {
		names = append(names, n)
	}
	sort.Strings(names)
	if mode.names || mode.flags {
		for _, n := range names {
			if !want[n] {
				return fmt.Sprintf("schema %s has an attribute %q that no field, injected field or placeholder accounts for", path, n)
			}
		}
	}
	for _, a := range m.Attrs {
		got, ok := attrs[a.Name]
		if !ok {
			return fmt.Sprintf("schema %s lacks attribute %q for field %s", path, a.Name, a.TypeKey)
		}
		*count++
		p := path + "." + a.Name
		if a.Custom != nil {
			// the hook's sentinel attribute; the call itself is checked by C17
			if mode.names {
				if got.Type == nil || !got.Type.Equal(support.CustomType{Suffix: a.Custom.Suffix}) {
					return fmt.Sprintf("schema %s: custom field is not the attribute returned by GenSchema%s (type %s)", p, a.Custom.Suffix, typeName(got.Type))
				}
			}
			if mode.flags {
				// the harness's hook echoes what it was given (flags, validators, plan modifiers, and the
				// description behind a "hook:<suffix>:" prefix): "called with the description and flags
				// the field would otherwise get"
				prefix := "hook:" + a.Custom.Suffix + ":"
				if !strings.HasPrefix(got.Description, prefix) {
					return fmt.Sprintf("schema %s: custom attribute does not come from GenSchema%s (description %q)", p, a.Custom.Suffix, got.Description)
				}
				echo := got
				echo.Description = strings.TrimPrefix(got.Description, prefix)
				if msg := checkFlags(p, echo, a); msg != "" {
					return msg + " (attribute passed to the custom-type hook)"
				}
			}
			continue
		}
		if a.Msg != nil {
			if got.Attributes == nil {
				return fmt.Sprintf("schema %s: message field has no nested attributes (Type=%s)", p, typeName(got.Type))
			}
			if got.Type != nil {
				return fmt.Sprintf("schema %s: both Type and Attributes set", p)
			}
			wantMode := tfsdk.NestingModeSingle
			switch a.Card {
			case "repeated":
				wantMode = tfsdk.NestingModeList
			case "map":
				wantMode = tfsdk.NestingModeMap
			}
			if mode.names && got.Attributes.GetNestingMode() != wantMode {
				return fmt.Sprintf("schema %s: nesting mode %d, want %d", p, got.Attributes.GetNestingMode(), wantMode)
			}
			if msg := checkSchemaAttrs(p, got.Attributes.GetAttributes(), a.Msg, mdl, mode, count); msg != "" {
				return msg
			}
		} else if mode.names {
			if got.Attributes != nil {
				return fmt.Sprintf("schema %s: nested attributes on a non-message field", p)
			}
			if got.Type == nil || !got.Type.Equal(ExpType(a, mdl)) {
				return fmt.Sprintf("schema %s: type %s, want %s", p, typeName(got.Type), typeName(ExpType(a, mdl)))
			}
		}
		if mode.flags {
			if msg := checkFlags(p, got, a); msg != "" {
				return msg
			}
		}
	}
	if mode.flags {
		for _, i := range m.Injected {
			got, ok := attrs[i.Name]
			if !ok {
				return fmt.Sprintf("schema %s lacks injected attribute %q", path, i.Name)
			}
			p := path + "." + i.Name
			if got.Type == nil || !got.Type.Equal(injectedType(i.Type)) || got.Attributes != nil {
				return fmt.Sprintf("schema %s: injected attribute has type %s, want %s", p, typeName(got.Type), i.Type)
			}
			if got.Required != i.Required || got.Optional != i.Optional || got.Computed != i.Computed {
				return fmt.Sprintf("schema %s: injected flags required/optional/computed = %v/%v/%v, want %v/%v/%v", p, got.Required, got.Optional, got.Computed, i.Required, i.Optional, i.Computed)
			}
			if !eqStrings(validatorIDs(got.Validators), i.Validators) {
				return fmt.Sprintf("schema %s: injected validators %v, want %v", p, validatorIDs(got.Validators), i.Validators)
			}
			if !eqStrings(planModifierIDs(got.PlanModifiers), i.PlanModifiers) {
				return fmt.Sprintf("schema %s: injected plan modifiers %v, want %v", p, planModifierIDs(got.PlanModifiers), i.PlanModifiers)
			}
		}
	}
	return ""
}

// checkFlags compares one generated attribute's flags and metadata with the model.
func checkFlags(p string, got tfsdk.Attribute, a *model.Attr) string {
	if a.Kind == "placeholder" {
		if got.Type == nil || !got.Type.Equal(types.BoolType) || !got.Computed || got.Required {
			return fmt.Sprintf("schema %s: the placeholder of an empty message must be a computed Bool attribute (type %s computed=%v required=%v)", p, typeName(got.Type), got.Computed, got.Required)
		}
		return ""
	}
	if got.Required == got.Optional {
		return fmt.Sprintf("schema %s: Required=%v and Optional=%v, want exactly one of them", p, got.Required, got.Optional)
	}
	if got.Required != a.Required {
		return fmt.Sprintf("schema %s: Required=%v, want %v (required_fields)", p, got.Required, a.Required)
	}
	if got.Computed != a.Computed {
		return fmt.Sprintf("schema %s: Computed=%v, want %v (computed_fields)", p, got.Computed, a.Computed)
	}
	if got.Sensitive != a.Sensitive {
		return fmt.Sprintf("schema %s: Sensitive=%v, want %v (sensitive_fields)", p, got.Sensitive, a.Sensitive)
	}
	if !eqStrings(validatorIDs(got.Validators), a.Validators) {
		return fmt.Sprintf("schema %s: validators %v, want %v", p, validatorIDs(got.Validators), a.Validators)
	}
	if !eqStrings(planModifierIDs(got.PlanModifiers), a.PlanModifiers) {
		return fmt.Sprintf("schema %s: plan modifiers %v, want %v", p, planModifierIDs(got.PlanModifiers), a.PlanModifiers)
	}
	return checkDescription(p, got.Description, a.Description)
}

func checkDescription(p, got, want string) string {
	if strings.ContainsAny(got, "\n\r") {
		return fmt.Sprintf("schema %s: description %q is not a single line", p, got)
	}
	if strings.TrimSpace(got) != got {
		return fmt.Sprintf("schema %s: description %q is not trimmed", p, got)
	}
	if strings.Join(strings.Fields(got), " ") != want {
		return fmt.Sprintf("schema %s: description %q, want the leading comment %q", p, got, want)
	}
	return ""
}
