package rt

import (
	"fmt"
	"reflect"
	"sort"
	"time"

	"github.com/hashicorp/terraform-plugin-framework/types"
	"pgregory.net/rapid"

	"verif/model"
)

func init() {
	inner["C05"] = propC05
	inner["C07"] = propC07
	inner["C08"] = propC08
	inner["C09"] = propC09
}

// leafType is the Go type of a scalar-like value position (pointer and collection wrappers removed).
func leafType(ab *AttrB) reflect.Type {
	t := ab.Typ
	if ab.A.Card != "" {
		t = t.Elem()
	}
	if t.Kind() == reflect.Ptr {
		t = t.Elem()
	}
	return t
}

// nodeLeafNF is the normal form of the Go value a known leaf node decodes to.
func nodeLeafNF(ab *AttrB, n *Node) interface{} {
	lt := leafType(ab)
	var v reflect.Value
	switch n.Kind {
	case "string":
		v = reflect.ValueOf(n.S)
	case "int64":
		v = reflect.ValueOf(n.I)
	case "float64":
		v = reflect.ValueOf(n.F)
	case "bool":
		v = reflect.ValueOf(n.B)
	case "time":
		v = reflect.ValueOf(n.T)
	case "duration":
		v = reflect.ValueOf(int64(n.D))
	default:
		return fmt.Sprintf("?%s", n.Kind)
	}
	if !v.Type().ConvertibleTo(lt) {
		return fmt.Sprintf("?%s->%s", v.Type(), lt)
	}
	return leafNF(v.Convert(lt))
}

// ------------------------------------------------------------------ C05

// twin gives every null or unknown node of a the payload of the corresponding node in full.
func twin(a, full *Node) *Node {
	out := a.Clone()
	graft(out, full)
	return out
}

func graft(a, full *Node) {
	if a == nil || full == nil || a.Kind != full.Kind {
		return
	}
	if a.Absent() {
		null, unk := a.Null, a.Unknown
		c := full.Clone()
		*a = *c
		a.Null, a.Unknown = null, unk
		return
	}
	switch a.Kind {
	case "object":
		for k, c := range a.Attrs {
			graft(c, full.Attrs[k])
		}
	case "list":
		for i, c := range a.Elems {
			if i < len(full.Elems) {
				graft(c, full.Elems[i])
			} else if len(full.Elems) > 0 {
				graft(c, full.Elems[0])
			}
		}
	case "map":
		var donor *Node
		for _, k := range full.SortedKeys() {
			donor = full.MapElems[k]
			break
		}
		for _, k := range a.SortedKeys() {
			if d, ok := full.MapElems[k]; ok {
				graft(a.MapElems[k], d)
			} else if donor != nil {
				graft(a.MapElems[k], donor)
			}
		}
	}
}

// absentZero checks that every null/unknown attribute left its field at the zero value.
func absentZero(path string, b *MsgB, n *Node, sv reflect.Value, hits *int) string {
	for _, ab := range b.Attrs {
		if ab.A.Kind == "placeholder" || ab.A.Custom != nil {
			continue
		}
		an := n.Attrs[ab.A.Name]
		if an == nil {
			continue
		}
		p := path + "." + ab.A.Name
		v, ok := ab.Get(sv)
		if an.Absent() {
			*hits++
			if !ok {
				continue // nil embedded parent / other or no oneof branch: the field reads as zero
			}
			if got, want := valueNF(ab, v, false), zeroNF(ab); DiffNF(got, want) != "" {
				return fmt.Sprintf("%s is %s but field %s holds %s", p, an.String(), ab.A.TypeKey, short(got))
			}
			continue
		}
		if !ok || ab.Sub == nil {
			continue
		}
		// descend into known objects
		switch ab.A.Card {
		case "":
			if v.Kind() == reflect.Ptr {
				if v.IsNil() {
					continue
				}
				v = v.Elem()
			}
			if msg := absentZero(p, ab.Sub, an, v, hits); msg != "" {
				return msg
			}
		case "repeated":
			if v.Len() != len(an.Elems) {
				continue
			}
			for i, en := range an.Elems {
				ev := v.Index(i)
				if en.Absent() {
					*hits++
					if got, want := valueNF(ab, ev, true), zeroElemNF(ab); DiffNF(got, want) != "" {
						return fmt.Sprintf("%s[%d] is %s but the element holds %s", p, i, en.String(), short(got))
					}
					continue
				}
				if ev.Kind() == reflect.Ptr {
					if ev.IsNil() {
						continue
					}
					ev = ev.Elem()
				}
				if msg := absentZero(fmt.Sprintf("%s[%d]", p, i), ab.Sub, en, ev, hits); msg != "" {
					return msg
				}
			}
		case "map":
			for _, k := range an.SortedKeys() {
				en := an.MapElems[k]
				ev := v.MapIndex(reflect.ValueOf(k).Convert(v.Type().Key()))
				if !ev.IsValid() {
					continue
				}
				if en.Absent() {
					*hits++
					if got, want := valueNF(ab, ev, true), zeroElemNF(ab); DiffNF(got, want) != "" {
						return fmt.Sprintf("%s[%q] is %s but the element holds %s", p, k, en.String(), short(got))
					}
					continue
				}
				if ev.Kind() == reflect.Ptr {
					if ev.IsNil() {
						continue
					}
					ev = ev.Elem()
				}
				if msg := absentZero(fmt.Sprintf("%s[%q]", p, k), ab.Sub, en, ev, hits); msg != "" {
					return msg
				}
			}
		}
	}
	return ""
}

// zeroElemNF is the normal form of a zero element (nil pointer or zero value).
func zeroElemNF(ab *AttrB) interface{} {
	t := ab.Typ.Elem()
	if t.Kind() == reflect.Ptr {
		return NFNil{}
	}
	if ab.Sub != nil {
		return NF(ab.Sub, reflect.Zero(t))
	}
	return leafNF(reflect.Zero(t))
}

func excludedSnapshot(b *MsgB, sv reflect.Value) []interface{} {
	var out []interface{}
	for _, refs := range b.Excluded {
		last := refs[len(refs)-1]
		parent, ok := reachEmbedded(sv, refs[:len(refs)-1], false)
		if !ok {
			// nil nullable-embedded parent: the field reads as its zero value (allocating the
			// parent for a sibling does not modify it)
			if last.oneof != nil {
				out = append(out, nil)
			} else {
				out = append(out, reflect.Zero(last.typ).Interface())
			}
			continue
		}
		if last.oneof != nil {
			// An excluded oneof member shares its holder with the described members: C07
			// requires the holder to follow those, so "untouched" is not claimed here.
			out = append(out, nil)
			continue
		}
		out = append(out, deepCopy(parent.Field(last.index)).Interface())
	}
	return out
}

func absentStats(n *Node, depth int, deep *bool, count *int) {
	if n == nil {
		return
	}
	if n.Absent() {
		*count++
		if depth >= 1 {
			*deep = true
		}
		return
	}
	for _, c := range n.Attrs {
		absentStats(c, depth+1, deep, count)
	}
	for _, c := range n.Elems {
		absentStats(c, depth+1, deep, count)
	}
	for _, c := range n.MapElems {
		absentStats(c, depth+1, deep, count)
	}
}

func propC05(t *rapid.T, e *Env) {
	rc := drawRoot(t, e)
	obj, err := GenObject(t, rc.Type, rc.B, OOpts{PAbsent: 45})
	if err != nil {
		t.Fatalf("%v", err)
	}
	full, err := GenObject(t, rc.Type, rc.B, OOpts{PAbsent: 1, NoUnknown: true})
	if err != nil {
		t.Fatalf("%v", err)
	}
	on := ToNode(obj)
	tw := twin(on, ToNode(full))
	populated := GenStruct(t, rc.B.Typ, VOpts{})
	type run struct {
		name string
		obj  types.Object
		dst  reflect.Value
	}
	runs := []run{
		{"conforming object into a zero struct", obj, rc.New()},
		{"conforming object into a populated struct", obj, cloneStruct(populated)},
		{"payload twin into a zero struct", tw.Object(), rc.New()},
		{"payload twin into a populated struct", tw.Object(), cloneStruct(populated)},
	}
	var first NFObj
	hits := 0
	for i, r := range runs {
		before := excludedSnapshot(rc.B, r.dst.Elem())
		d, p := rc.CopyFrom(r.obj, r.dst)
		if p != "" {
			e.Fail(t, "C05 Copy%sFromTerraform panicked (%s): %s; object %s", rc.M.Name, r.name, p, ToNode(r.obj).String())
		}
		if errs := errorDiags(d); len(errs) > 0 {
			e.Fail(t, "C05 Copy%sFromTerraform returned error diagnostics on a conforming object (%s): %v; object %s", rc.M.Name, r.name, errs, ToNode(r.obj).String())
		}
		if msg := absentZero(rc.M.Name, rc.B, on, r.dst.Elem(), &hits); msg != "" {
			e.Fail(t, "C05 (%s): %s; object %s; prior target %s", r.name, msg, ToNode(r.obj).String(), describe(rc, populated))
		}
		after := excludedSnapshot(rc.B, r.dst.Elem())
		if !reflect.DeepEqual(before, after) {
			e.Fail(t, "C05 (%s): an excluded field of %s was modified: before %v after %v", r.name, rc.M.Name, before, after)
		}
		nf := NF(rc.B, r.dst.Elem())
		if i == 0 {
			first = nf
		} else if diff := DiffNF(first, nf); diff != "" {
			e.Fail(t, "C05 the result depends on the prior target content or on the payload under null/unknown (%s vs %s): %s; object %s; twin %s; prior target %s",
				runs[0].name, r.name, diff, on.String(), tw.String(), describe(rc, populated))
		}
	}
	deep, cnt := false, 0
	absentStats(on, 0, &deep, &cnt)
	if cnt > 0 {
		e.Res.Class("has_absent")
	}
	if deep {
		e.Res.Class("absent_below_root")
		e.Res.Nontriv(on.String() + describe(rc, populated))
	}
	e.Res.Sample("object " + on.String() + " twin " + tw.String())
}

// ------------------------------------------------------------------ C07

type groupInfo struct {
	key     string
	members []*AttrB
}

func groupsOf(b *MsgB) []groupInfo {
	m := map[string]*groupInfo{}
	var keys []string
	for _, ab := range b.Attrs {
		if ab.A.Oneof == "" || ab.A.Custom != nil {
			continue
		}
		k := ab.GroupKey()
		if m[k] == nil {
			m[k] = &groupInfo{key: k}
			keys = append(keys, k)
		}
		m[k].members = append(m[k].members, ab)
	}
	sort.Strings(keys)
	out := make([]groupInfo, 0, len(keys))
	for _, k := range keys {
		out = append(out, *m[k])
	}
	return out
}

// oneofFrom checks every oneof group reachable through known objects after CopyFrom.
func oneofFrom(path string, b *MsgB, n *Node, sv reflect.Value, stats *oneofStats) string {
	for _, g := range groupsOf(b) {
		var chosen *AttrB
		known := 0
		for _, ab := range g.members {
			an := n.Attrs[ab.A.Name]
			if an != nil && !an.Absent() {
				known++
				chosen = ab
			}
		}
		if known > 1 {
			continue // outside the property's domain
		}
		h, ok := g.members[0].Holder(sv)
		if !ok {
			continue
		}
		stats.groups++
		if len(g.members) >= 2 {
			stats.multi++
		}
		if known == 0 {
			if !h.IsNil() {
				return fmt.Sprintf("%s: all branch attributes of oneof %s are null or unknown but the struct holds %s", path, g.key, h.Elem().Type())
			}
			continue
		}
		an := n.Attrs[chosen.A.Name]
		v, ok := chosen.Get(sv)
		if !ok {
			held := "nil"
			if !h.IsNil() {
				held = h.Elem().Type().String()
			}
			return fmt.Sprintf("%s: attribute %s of oneof %s is known (%s) but the struct holds %s", path, chosen.A.Name, g.key, an.String(), held)
		}
		if chosen.Sub != nil {
			if v.IsNil() {
				return fmt.Sprintf("%s: message branch %s is a non-null object but the wrapper holds a nil pointer", path, chosen.A.Name)
			}
			if msg := oneofFrom(path+"."+chosen.A.Name, chosen.Sub, an, v.Elem(), stats); msg != "" {
				return msg
			}
			continue
		}
		got := valueNF(chosen, v, false)
		want := nodeLeafNF(chosen, an)
		if DiffNF(got, want) != "" {
			return fmt.Sprintf("%s: branch %s holds %s, want the decoded attribute value %s", path, chosen.A.Name, short(got), short(want))
		}
	}
	// descend
	for _, ab := range b.Attrs {
		if ab.Sub == nil || ab.A.Custom != nil || ab.A.Oneof != "" {
			continue
		}
		an := n.Attrs[ab.A.Name]
		if an == nil || an.Absent() {
			continue
		}
		v, ok := ab.Get(sv)
		if !ok {
			continue
		}
		p := path + "." + ab.A.Name
		switch ab.A.Card {
		case "":
			if v.Kind() == reflect.Ptr {
				if v.IsNil() {
					continue
				}
				v = v.Elem()
			}
			stats.below = true
			if msg := oneofFrom(p, ab.Sub, an, v, stats); msg != "" {
				return msg
			}
		case "repeated":
			if v.Len() != len(an.Elems) {
				continue
			}
			for i, en := range an.Elems {
				ev := v.Index(i)
				if en.Absent() {
					continue
				}
				if ev.Kind() == reflect.Ptr {
					if ev.IsNil() {
						continue
					}
					ev = ev.Elem()
				}
				stats.below = true
				if msg := oneofFrom(fmt.Sprintf("%s[%d]", p, i), ab.Sub, en, ev, stats); msg != "" {
					return msg
				}
			}
		case "map":
			for _, k := range an.SortedKeys() {
				en := an.MapElems[k]
				ev := v.MapIndex(reflect.ValueOf(k).Convert(v.Type().Key()))
				if !ev.IsValid() || en.Absent() {
					continue
				}
				if ev.Kind() == reflect.Ptr {
					if ev.IsNil() {
						continue
					}
					ev = ev.Elem()
				}
				stats.below = true
				if msg := oneofFrom(fmt.Sprintf("%s[%q]", p, k), ab.Sub, en, ev, stats); msg != "" {
					return msg
				}
			}
		}
	}
	return ""
}

type oneofStats struct {
	groups, multi int
	below         bool
}

// oneofTo checks the oneof groups of the object produced by CopyTo into an empty object.
func oneofTo(path string, b *MsgB, n *Node, sv reflect.Value, stats *oneofStats) string {
	for _, g := range groupsOf(b) {
		if _, ok := g.members[0].Holder(sv); !ok {
			continue
		}
		stats.groups++
		if len(g.members) >= 2 {
			stats.multi++
		}
		for _, ab := range g.members {
			an := n.Attrs[ab.A.Name]
			if an == nil {
				return fmt.Sprintf("%s.%s: attribute of a oneof branch is missing", path, ab.A.Name)
			}
			v, active := ab.Get(sv)
			nonzero := false
			if active {
				if v.Kind() == reflect.Ptr {
					nonzero = !v.IsNil()
				} else {
					nonzero = !isZeroLeaf(v)
				}
			}
			if !active && !an.Null {
				return fmt.Sprintf("%s.%s: inactive branch of oneof %s is rendered non-null (%s)", path, ab.A.Name, g.key, an.String())
			}
			if active && nonzero && an.Null {
				return fmt.Sprintf("%s.%s: active branch of oneof %s with a non-zero payload is rendered null", path, ab.A.Name, g.key)
			}
			if active && !nonzero && !an.Null {
				return fmt.Sprintf("%s.%s: active branch of oneof %s with a zero payload is rendered non-null (%s)", path, ab.A.Name, g.key, an.String())
			}
			if active && nonzero && ab.Sub != nil {
				if msg := oneofTo(path+"."+ab.A.Name, ab.Sub, an, v.Elem(), stats); msg != "" {
					return msg
				}
			}
		}
	}
	for _, ab := range b.Attrs {
		if ab.Sub == nil || ab.A.Custom != nil || ab.A.Oneof != "" {
			continue
		}
		an := n.Attrs[ab.A.Name]
		v, ok := ab.Get(sv)
		if an == nil || an.Null || !ok {
			continue
		}
		p := path + "." + ab.A.Name
		switch ab.A.Card {
		case "":
			if v.Kind() == reflect.Ptr {
				if v.IsNil() {
					continue
				}
				v = v.Elem()
			}
			stats.below = true
			if msg := oneofTo(p, ab.Sub, an, v, stats); msg != "" {
				return msg
			}
		case "repeated":
			if v.Len() != len(an.Elems) {
				continue
			}
			for i, en := range an.Elems {
				ev := v.Index(i)
				if ev.Kind() == reflect.Ptr {
					if ev.IsNil() {
						continue
					}
					ev = ev.Elem()
				}
				if en.Null {
					continue
				}
				stats.below = true
				if msg := oneofTo(fmt.Sprintf("%s[%d]", p, i), ab.Sub, en, ev, stats); msg != "" {
					return msg
				}
			}
		case "map":
			for _, k := range an.SortedKeys() {
				en := an.MapElems[k]
				ev := v.MapIndex(reflect.ValueOf(k).Convert(v.Type().Key()))
				if !ev.IsValid() || en.Null {
					continue
				}
				if ev.Kind() == reflect.Ptr {
					if ev.IsNil() {
						continue
					}
					ev = ev.Elem()
				}
				stats.below = true
				if msg := oneofTo(fmt.Sprintf("%s[%q]", p, k), ab.Sub, en, ev, stats); msg != "" {
					return msg
				}
			}
		}
	}
	return ""
}

func propC07(t *rapid.T, e *Env) {
	rc := drawRoot(t, e)
	// a history of CopyFrom calls on one target: every prior oneof state is reached
	target := GenStruct(t, rc.B.Typ, VOpts{})
	steps := rapid.IntRange(1, 4).Draw(t, "steps")
	var st oneofStats
	desc := ""
	for i := 0; i < steps; i++ {
		obj, err := GenObject(t, rc.Type, rc.B, OOpts{OneofExclusive: true, PAbsent: 35})
		if err != nil {
			t.Fatalf("%v", err)
		}
		prior := describe(rc, target)
		d, p := rc.CopyFrom(obj, target)
		n := ToNode(obj)
		if p != "" {
			e.Fail(t, "C07 Copy%sFromTerraform panicked: %s; object %s", rc.M.Name, p, n.String())
		}
		if errs := errorDiags(d); len(errs) > 0 {
			e.Fail(t, "C07 Copy%sFromTerraform returned error diagnostics on a conforming object: %v", rc.M.Name, errs)
		}
		if msg := oneofFrom(rc.M.Name, rc.B, n, target.Elem(), &st); msg != "" {
			e.Fail(t, "C07 CopyFrom step %d: %s; object %s; prior target %s", i, msg, n.String(), prior)
		}
		desc += n.String()
	}
	// CopyTo into an empty object
	x := GenStruct(t, rc.B.Typ, VOpts{ZeroBias: rapid.Bool().Draw(t, "zerobias")})
	n := toEmpty(t, e, rc, x, "a generated value")
	if msg := oneofTo(rc.M.Name, rc.B, n, x.Elem(), &st); msg != "" {
		e.Fail(t, "C07 CopyTo: %s; source %s; object %s", msg, describe(rc, x), n.String())
	}
	if st.groups > 0 {
		e.Res.Class("has_oneof_group")
	}
	if st.multi > 0 || (st.below && st.groups > 0) {
		e.Res.Class("multi_member_or_nested_group")
		e.Res.Nontriv(desc + describe(rc, x))
	}
	e.Res.Sample("history " + desc + " ; CopyTo " + describe(rc, x))
}

// ------------------------------------------------------------------ C08

type echoStats struct {
	null, unknown, knownZero bool
}

func isKnownZero(n *Node) bool {
	switch n.Kind {
	case "string":
		return n.S == ""
	case "int64":
		return n.I == 0
	case "float64":
		return n.F == 0
	case "bool":
		return !n.B
	case "list":
		return len(n.Elems) == 0
	case "map":
		return len(n.MapElems) == 0
	case "duration":
		return n.D == 0
	}
	return false
}

// echo compares the plan with the object returned by CopyFrom;CopyTo (C08 ii-iv).
func echo(path string, b *MsgB, plan, got *Node, st *echoStats, inElem bool) string {
	injected := map[string]bool{}
	for _, i := range b.M.Injected {
		injected[i.Name] = true
	}
	for _, name := range plan.SortedAttrs() {
		if injected[name] {
			continue
		}
		ab := b.ByName[name]
		if ab == nil || ab.A.Custom != nil {
			continue
		}
		pn, gn := plan.Attrs[name], got.Attrs[name]
		p := path + "." + name
		if gn == nil {
			return fmt.Sprintf("%s: attribute missing after the echo", p)
		}
		if msg := noUnknown(p, gn, b, ab); msg != "" {
			return msg
		}
		if pn.Null {
			st.null = true
		}
		if pn.Unknown {
			st.unknown = true
		}
		if pn.Unknown {
			continue
		}
		if !pn.Null && isKnownZero(pn) {
			st.knownZero = true
		}
		if !inElem {
			// (iii) known in the plan (null or not): returned unchanged
			if gn.Kind != pn.Kind {
				return fmt.Sprintf("%s: kind changed from %s to %s", p, pn.Kind, gn.Kind)
			}
			if gn.Null != pn.Null {
				return fmt.Sprintf("%s: planned %s, returned %s (Terraform: inconsistent result after apply)", p, pn.String(), gn.String())
			}
		}
		if pn.Null {
			continue
		}
		switch pn.Kind {
		case "object":
			if gn.Null {
				return fmt.Sprintf("%s: planned a non-null object, returned null", p)
			}
			if msg := echo(p, ab.Sub, pn, gn, st, inElem); msg != "" {
				return msg
			}
		case "list":
			// (iv) null-ness, length
			if gn.Null != pn.Null || len(gn.Elems) != len(pn.Elems) {
				return fmt.Sprintf("%s: planned list %s, returned %s", p, pn.String(), gn.String())
			}
		case "map":
			if gn.Null != pn.Null || fmt.Sprint(gn.SortedKeys()) != fmt.Sprint(pn.SortedKeys()) {
				return fmt.Sprintf("%s: planned map %s, returned %s", p, pn.String(), gn.String())
			}
		default:
			if !inElem && !leafEqual(pn, gn) {
				return fmt.Sprintf("%s: planned %s, returned %s (Terraform: inconsistent result after apply)", p, pn.String(), gn.String())
			}
		}
	}
	return ""
}

// noUnknown: nothing is unknown at any depth (injected attributes aside).
func noUnknown(path string, n *Node, b *MsgB, ab *AttrB) string {
	if n.Unknown {
		return fmt.Sprintf("%s: unknown after the echo", path)
	}
	if n.Null {
		return ""
	}
	switch n.Kind {
	case "object":
		if ab == nil || ab.Sub == nil {
			return ""
		}
		inj := map[string]bool{}
		for _, i := range ab.Sub.M.Injected {
			inj[i.Name] = true
		}
		for _, k := range n.SortedAttrs() {
			if inj[k] {
				continue
			}
			cab := ab.Sub.ByName[k]
			if cab == nil || cab.A.Custom != nil {
				continue
			}
			if msg := noUnknown(path+"."+k, n.Attrs[k], ab.Sub, cab); msg != "" {
				return msg
			}
		}
	case "list":
		for i, c := range n.Elems {
			if msg := noUnknown(fmt.Sprintf("%s[%d]", path, i), c, b, ab); msg != "" {
				return msg
			}
		}
	case "map":
		for _, k := range n.SortedKeys() {
			if msg := noUnknown(fmt.Sprintf("%s[%q]", path, k), n.MapElems[k], b, ab); msg != "" {
				return msg
			}
		}
	}
	return ""
}

func propC08(t *rapid.T, e *Env) {
	rc := drawRoot(t, e)
	plan, err := GenObject(t, rc.Type, rc.B, OOpts{Plan: true, KnownZeroBias: true, PAbsent: 40})
	if err != nil {
		t.Fatalf("%v", err)
	}
	pn := ToNode(plan)
	s := rc.New()
	d, p := rc.CopyFrom(plan, s)
	if p != "" {
		e.Fail(t, "C08 Copy%sFromTerraform panicked on a plan: %s; plan %s", rc.M.Name, p, pn.String())
	}
	if errs := errorDiags(d); len(errs) > 0 {
		e.Fail(t, "C08 Copy%sFromTerraform returned error diagnostics on a plan: %v; plan %s", rc.M.Name, errs, pn.String())
	}
	r := pn.Clone().Object()
	d, p = rc.CopyTo(s, &r)
	if p != "" {
		e.Fail(t, "C08 Copy%sToTerraform panicked copying back into the plan: %s; plan %s", rc.M.Name, p, pn.String())
	}
	if errs := errorDiags(d); len(errs) > 0 {
		e.Fail(t, "C08 Copy%sToTerraform returned error diagnostics copying back into the plan: %v; plan %s", rc.M.Name, errs, pn.String())
	}
	rn := ToNode(r)
	var st echoStats
	if msg := echo(rc.M.Name, rc.B, pn, rn, &st, false); msg != "" {
		e.Fail(t, "C08 apply echo: %s; plan %s; returned %s", msg, pn.String(), rn.String())
	}
	s2 := rc.New()
	d, p = rc.CopyFrom(r, s2)
	if p != "" || len(errorDiags(d)) > 0 {
		e.Fail(t, "C08 decoding the returned object failed: %s %v; returned %s", p, errorDiags(d), rn.String())
	}
	if diff := DiffNF(NF(rc.B, s.Elem()), NF(rc.B, s2.Elem())); diff != "" {
		e.Fail(t, "C08 decoding the returned object gives another struct: %s; plan %s; returned %s", diff, pn.String(), rn.String())
	}
	if st.null && st.unknown && st.knownZero {
		e.Res.Class("null+unknown+known_zero")
		e.Res.Nontriv(pn.String())
	}
	e.Res.Sample("plan " + pn.String() + " returned " + rn.String())
}

// ------------------------------------------------------------------ C09

type refreshStats struct {
	lenChanged bool
}

// follows compares the object after an in-place CopyTo (cur) with what a CopyTo of the
// same source into an empty object gives (fresh), using the state before the call (prev).
func follows(path string, b *MsgB, prev, cur, fresh *Node, sv reflect.Value, st *refreshStats) string {
	for _, ab := range b.Attrs {
		if ab.A.Kind == "placeholder" || ab.A.Custom != nil {
			continue
		}
		name := ab.A.Name
		p := path + "." + name
		cn, fn := cur.Attrs[name], fresh.Attrs[name]
		var pv *Node
		if prev != nil && !prev.Null && prev.Kind == "object" {
			pv = prev.Attrs[name]
		}
		if cn == nil {
			return fmt.Sprintf("%s: attribute missing after refresh", p)
		}
		if fn == nil {
			continue
		}
		if cn.Unknown {
			return fmt.Sprintf("%s: unknown after refresh", p)
		}
		if ab.UnderNilEmbed(sv) {
			// The embedded parent is nil in the source: its scalars have no value, so an attribute that
			// was non-null must not keep the old one (it is null, or at least holds the zero value)
			if ab.Sub == nil && ab.A.Card == "" && !cn.Null && pv != nil && !pv.Null {
				lt := ab.Typ
				if lt.Kind() == reflect.Ptr {
					lt = lt.Elem()
				}
				if zero := expLeaf(ab.A, rcModel, reflect.Zero(lt)); cn.Kind == zero.Kind && !leafEqual(cn, zero) {
					return fmt.Sprintf("%s: the embedded message is nil in the source but the attribute still holds %s (was %s)", p, cn.String(), pv.String())
				}
			}
			// ... and its lists and maps have no elements (what a CopyTo into an empty object gives as well)
			if (ab.A.Card == "repeated" || ab.A.Card == "map") && !cn.Null && len(fn.Elems)+len(fn.MapElems) == 0 {
				if n := len(cn.Elems) + len(cn.MapElems); n != 0 {
					return fmt.Sprintf("%s: the embedded message is nil in the source (no elements) but the collection still has %d after refresh: %s", p, n, cn.String())
				}
				if pv != nil && len(pv.Elems)+len(pv.MapElems) > 0 {
					st.lenChanged = true
				}
			}
			continue
		}
		v, ok := ab.Get(sv)
		switch ab.A.Card {
		case "repeated":
			n := 0
			if ok {
				n = v.Len()
			}
			if pv != nil && len(pv.Elems) != n {
				st.lenChanged = true
			}
			if len(cn.Elems) != n && !(cn.Null && n == 0) {
				return fmt.Sprintf("%s: list has %d elements after refresh, the source has %d (object %s)", p, len(cn.Elems), n, cn.String())
			}
			if n > 0 {
				if cn.Null {
					return fmt.Sprintf("%s: list is null after refresh, the source has %d elements", p, n)
				}
				var diffs []string
				diffNodes(p, &Node{Kind: "list", Elems: cn.Elems}, &Node{Kind: "list", Elems: fn.Elems}, &diffs)
				if len(diffs) > 0 {
					return fmt.Sprintf("%s: list elements differ from a fresh CopyTo at %v: %s vs %s", p, diffs, cn.String(), fn.String())
				}
			}
		case "map":
			n := 0
			if ok {
				n = v.Len()
			}
			if pv != nil && fmt.Sprint(pv.SortedKeys()) != fmt.Sprint(fn.SortedKeys()) {
				st.lenChanged = true
			}
			if !(cn.Null && n == 0) && fmt.Sprint(cn.SortedKeys()) != fmt.Sprint(fn.SortedKeys()) {
				return fmt.Sprintf("%s: map has keys %v after refresh, the source has %v", p, cn.SortedKeys(), fn.SortedKeys())
			}
			if n > 0 {
				if cn.Null {
					return fmt.Sprintf("%s: map is null after refresh, the source has %d entries", p, n)
				}
				var diffs []string
				diffNodes(p, &Node{Kind: "map", MapElems: cn.MapElems}, &Node{Kind: "map", MapElems: fn.MapElems}, &diffs)
				if len(diffs) > 0 {
					return fmt.Sprintf("%s: map values differ from a fresh CopyTo at %v: %s vs %s", p, diffs, cn.String(), fn.String())
				}
			}
		default:
			if ab.Sub != nil {
				nilSrc := !ok || (v.Kind() == reflect.Ptr && v.IsNil())
				if ab.A.Pointer && ab.A.Oneof == "" && nilSrc && !cn.Null {
					return fmt.Sprintf("%s: nullable message is nil in the source but not null after refresh (%s)", p, cn.String())
				}
				if !cn.Null && !nilSrc && cn.Kind == "object" && !fn.Null {
					sub := v
					if sub.Kind() == reflect.Ptr {
						sub = sub.Elem()
					}
					if msg := follows(p, ab.Sub, pv, cn, fn, sub, st); msg != "" {
						return msg
					}
				}
				continue
			}
			// scalar
			if ab.A.Pointer && ab.A.Oneof == "" {
				nilSrc := !ok || v.IsNil()
				if cn.Null != nilSrc {
					return fmt.Sprintf("%s: pointer-backed attribute null=%v but source pointer nil=%v", p, cn.Null, nilSrc)
				}
				if !nilSrc && !leafEqual(cn, expLeaf(ab.A, rcModel, v.Elem())) {
					return fmt.Sprintf("%s: holds %s, the source holds %s", p, cn.String(), expLeaf(ab.A, rcModel, v.Elem()).String())
				}
				continue
			}
			if pv != nil && !pv.Null && !pv.Unknown && ok && v.Kind() != reflect.Ptr {
				want := expLeaf(ab.A, rcModel, v)
				if cn.Kind != want.Kind || (!cn.Null && !leafEqual(cn, want)) || (cn.Null && !isZeroLeaf(v)) {
					return fmt.Sprintf("%s: was %s, holds %s after refresh, the source holds %s", p, pv.String(), cn.String(), want.String())
				}
			}
		}
	}
	return ""
}

var rcModel *model.Model

func propC09(t *rapid.T, e *Env) {
	rc := drawRoot(t, e)
	rcModel = rc.Mdl
	g := &vgen{t: t, o: VOpts{KeyPool: keyPools[rc.B.Typ]}}
	x := GenStruct(t, rc.B.Typ, VOpts{})
	cur := toEmpty(t, e, rc, x, "the initial value")
	obj := cur.Object()
	steps := rapid.IntRange(1, 6).Draw(t, "steps")
	var st refreshStats
	hist := describe(rc, x)
	for i := 0; i < steps; i++ {
		if rapid.IntRange(0, 3).Draw(t, "freshvalue") == 0 {
			x = GenStruct(t, rc.B.Typ, VOpts{})
		} else {
			x = cloneStruct(x)
			mutate(t, g, x.Elem(), 0)
		}
		hist += " -> " + describe(rc, x)
		prev := ToNode(obj)
		d, p := rc.CopyTo(x, &obj)
		if p != "" {
			e.Fail(t, "C09 Copy%sToTerraform panicked on refresh step %d: %s; history %s", rc.M.Name, i, p, hist)
		}
		if errs := errorDiags(d); len(errs) > 0 {
			e.Fail(t, "C09 Copy%sToTerraform returned error diagnostics on refresh step %d: %v; history %s", rc.M.Name, i, errs, hist)
		}
		now := ToNode(obj)
		fresh := toEmpty(t, e, rc, x, "the new value")
		if msg := follows(rc.M.Name, rc.B, prev, now, fresh, x.Elem(), &st); msg != "" {
			e.Fail(t, "C09 refresh step %d: %s; history %s; object before %s; after %s", i, msg, hist, prev.String(), now.String())
		}
		// idempotence
		again := now.Clone().Object()
		d, p = rc.CopyTo(x, &again)
		if p != "" || len(errorDiags(d)) > 0 {
			e.Fail(t, "C09 repeated refresh failed: %s %v", p, errorDiags(d))
		}
		var diffs []string
		diffNodes(rc.M.Name, now, ToNode(again), &diffs)
		if len(diffs) > 0 {
			e.Fail(t, "C09 repeating the same CopyTo changed the object at %v; history %s", diffs, hist)
		}
	}
	if st.lenChanged {
		e.Res.Class("collection_changed_size")
		e.Res.Nontriv(hist)
	}
	e.Res.Sample(hist)
	_ = time.Now
}
