package rt

import (
	"fmt"
	"reflect"
	"time"

	"verif/model"
)

// isZeroLeaf: the field holds the zero value of its type (−0.0 counts as zero, empty bytes too).
func isZeroLeaf(v reflect.Value) bool {
	switch v.Kind() {
	case reflect.Slice:
		return v.Len() == 0
	case reflect.Float32, reflect.Float64:
		return v.Float() == 0
	}
	return v.IsZero()
}

// expLeaf renders a (non-pointer) scalar-like Go value as the documented Terraform value.
func expLeaf(a *model.Attr, mdl *model.Model, v reflect.Value) *Node {
	n := &Node{}
	switch a.TF {
	case model.TInt64:
		n.Kind = "int64"
		switch v.Kind() {
		case reflect.Uint32, reflect.Uint64, reflect.Uint:
			n.I = int64(v.Uint())
		default:
			n.I = v.Int()
		}
	case model.TFloat64:
		n.Kind = "float64"
		n.F = v.Float()
	case model.TBool:
		n.Kind = "bool"
		n.B = v.Bool()
	case model.TString:
		n.Kind = "string"
		if v.Kind() == reflect.Slice {
			n.S = string(v.Bytes())
		} else {
			n.S = v.String()
		}
	case model.TTime:
		n.Kind = "time"
		n.T = v.Interface().(time.Time)
		if mdl.TimeCtor {
			n.Tag = "ctor"
		}
	case model.TDuration:
		n.Kind = "duration"
		n.D = time.Duration(v.Int())
		if mdl.DurationCtor {
			n.Tag = "ctor"
		}
	default:
		panic("expLeaf: " + a.TF)
	}
	return n
}

// expValue renders the value at one position (singular field, element or map value).
// zeroIsNull: the documented "null iff zero" rule applies (singular scalars); for
// elements null-ness is not specified and is marked don't-care when the value is zero.
func expValue(ab *AttrB, mdl *model.Model, v reflect.Value, elem bool) *Node {
	a := ab.A
	if v.Kind() == reflect.Ptr {
		if v.IsNil() {
			if ab.Sub != nil {
				return &Node{Kind: "object", Null: true}
			}
			n := expLeaf(a, mdl, reflect.Zero(v.Type().Elem()))
			n.Null = true
			return n
		}
		v = v.Elem()
		if ab.Sub != nil {
			return ExpectTo(ab.Sub, mdl, v)
		}
		return expLeaf(a, mdl, v) // pointer-backed scalar: null iff nil
	}
	if ab.Sub != nil {
		return ExpectTo(ab.Sub, mdl, v)
	}
	n := expLeaf(a, mdl, v)
	if a.ByValueTemporal || a.TF == model.TTime || a.TF == model.TDuration {
		// held by value: "always rendered"; C20 only requires such attributes not to be
		// unknown, so the null flag of a zero instant / zero duration is not asserted.
		if elem || isZeroLeaf(v) {
			n.NullDC = true
		}
		return n
	}
	if isZeroLeaf(v) {
		n.Null = true
		if elem {
			n.NullDC = true
		}
	}
	return n
}

func nullOf(ab *AttrB, mdl *model.Model) *Node {
	a := ab.A
	switch a.Card {
	case "repeated":
		return &Node{Kind: "list", Null: true}
	case "map":
		return &Node{Kind: "map", Null: true}
	}
	if ab.Sub != nil {
		return &Node{Kind: "object", Null: true}
	}
	t := ab.Typ
	if t.Kind() == reflect.Ptr {
		t = t.Elem()
	}
	n := expLeaf(a, mdl, reflect.Zero(t))
	n.Null = true
	return n
}

// ExpectTo is the reference for CopyTToTerraform into an empty object: the tree of
// attributes (injected ones excluded, custom ones left out) the statements of
// C02/C03/C07/C20 prescribe for struct value sv.
func ExpectTo(b *MsgB, mdl *model.Model, sv reflect.Value) *Node {
	out := &Node{Kind: "object", Attrs: map[string]*Node{}}
	for _, ab := range b.Attrs {
		a := ab.A
		if a.Kind == "placeholder" {
			out.Attrs[a.Name] = &Node{Kind: "bool", Null: true}
			continue
		}
		if a.Custom != nil {
			continue
		}
		v, ok := ab.Get(sv)
		if !ok {
			// nil nullable-embedded parent, or inactive / unset oneof branch
			n := nullOf(ab, mdl)
			if ab.Sub != nil && a.Card == "" && !a.Pointer && a.Oneof == "" && ab.UnderNilEmbed(sv) {
				// a message held by value below a nil embedded parent: C20 says "non-nullable message
				// attributes are never null" without exception, so it is rendered from its zero value
				n = ExpectTo(ab.Sub, mdl, reflect.Zero(ab.Typ))
			}
			out.Attrs[a.Name] = n
			continue
		}
		switch a.Card {
		case "repeated":
			n := &Node{Kind: "list", Null: v.Len() == 0}
			for i := 0; i < v.Len(); i++ {
				n.Elems = append(n.Elems, expValue(ab, mdl, v.Index(i), true))
			}
			out.Attrs[a.Name] = n
		case "map":
			n := &Node{Kind: "map", Null: v.Len() == 0, MapElems: map[string]*Node{}}
			it := v.MapRange()
			for it.Next() {
				n.MapElems[it.Key().String()] = expValue(ab, mdl, it.Value(), true)
			}
			out.Attrs[a.Name] = n
		default:
			out.Attrs[a.Name] = expValue(ab, mdl, v, false)
		}
	}
	return out
}

// MatchOpts selects what MatchNode compares.
type MatchOpts struct {
	NullOnly   bool // compare only kinds and null-ness of attributes outside list/map elements (C20)
	AllowExtra bool // attributes not in the expectation are tolerated
	SkipElems  bool
}

// MatchNode compares an actual tree with an expectation; returns the first difference.
func MatchNode(path string, exp, got *Node, o MatchOpts) string {
	if got == nil {
		return fmt.Sprintf("%s: attribute missing", path)
	}
	if got.Kind != exp.Kind {
		return fmt.Sprintf("%s: value of kind %s, want %s", path, got.String(), exp.Kind)
	}
	if got.Unknown {
		return fmt.Sprintf("%s: unknown value", path)
	}
	if !exp.NullDC && got.Null != exp.Null {
		return fmt.Sprintf("%s: null=%v, want null=%v (got %s, want %s)", path, got.Null, exp.Null, got.String(), exp.String())
	}
	if got.Null || (exp.Null && exp.NullDC) {
		return ""
	}
	if exp.NullDC && exp.Kind == "object" && exp.Attrs == nil {
		return ""
	}
	switch exp.Kind {
	case "object":
		for _, k := range exp.SortedAttrs() {
			if msg := MatchNode(path+"."+k, exp.Attrs[k], got.Attrs[k], o); msg != "" {
				return msg
			}
		}
		if !o.AllowExtra {
			for _, k := range got.SortedAttrs() {
				if _, ok := exp.Attrs[k]; !ok {
					return fmt.Sprintf("%s.%s: unexpected attribute", path, k)
				}
			}
		}
	case "list":
		if o.NullOnly || o.SkipElems {
			return ""
		}
		if len(got.Elems) != len(exp.Elems) {
			return fmt.Sprintf("%s: %d elements, want %d", path, len(got.Elems), len(exp.Elems))
		}
		for i := range exp.Elems {
			if msg := MatchNode(fmt.Sprintf("%s[%d]", path, i), exp.Elems[i], got.Elems[i], o); msg != "" {
				return msg
			}
		}
	case "map":
		if o.NullOnly || o.SkipElems {
			return ""
		}
		if len(got.MapElems) != len(exp.MapElems) {
			return fmt.Sprintf("%s: keys %v, want %v", path, got.SortedKeys(), exp.SortedKeys())
		}
		for _, k := range exp.SortedKeys() {
			g, ok := got.MapElems[k]
			if !ok {
				return fmt.Sprintf("%s: key %q missing", path, k)
			}
			if msg := MatchNode(fmt.Sprintf("%s[%q]", path, k), exp.MapElems[k], g, o); msg != "" {
				return msg
			}
		}
	default:
		if o.NullOnly {
			return ""
		}
		if !leafEqual(exp, got) {
			return fmt.Sprintf("%s: value %s, want %s", path, got.String(), exp.String())
		}
	}
	return ""
}

func leafEqual(a, b *Node) bool {
	switch a.Kind {
	case "string":
		return a.S == b.S
	case "int64":
		return a.I == b.I
	case "float64":
		return a.F == b.F
	case "bool":
		return a.B == b.B
	case "time":
		_, ao := a.T.Zone()
		_, bo := b.T.Zone()
		return a.T.Equal(b.T) && ao == bo && a.Tag == b.Tag
	case "duration":
		return a.D == b.D && a.Tag == b.Tag
	case "custom":
		return a.S == b.S && a.Tag == b.Tag
	}
	return false
}
