package rt

import (
	"math"
	"reflect"
	"strings"
	"time"

	"pgregory.net/rapid"
)

// VOpts steers the struct value generator V(T) (DESIGN.md §3.3).
type VOpts struct {
	ZeroBias bool // every leaf is zero with probability 1/2 (C20)
	Boundary bool // leaves are taken from the boundary set of their type with probability 1/2 (C19)
	MaxElems int
	// KeyPool: strings that are sometimes used as map keys (the attribute names of the schema: a key that
	// coincides with the name of a sibling attribute is a classic source of mixed-up lookups)
	KeyPool []string
}

var (
	timeType     = reflect.TypeOf(time.Time{})
	durationType = reflect.TypeOf(time.Duration(0))
)

var int32Bounds = []int64{math.MinInt32, -1, 0, 1, math.MaxInt32, 2, 7}
var uint32Bounds = []uint64{0, 1, 1<<31 - 1, 1 << 31, math.MaxUint32}
var int64Bounds = []int64{math.MinInt64, -(1 << 53) - 1, -1, 0, 1, 1<<53 + 1, math.MaxInt64, math.MaxInt32 + 1, math.MinInt32 - 1}
var uint64Bounds = []uint64{0, 1, 1<<63 - 1, 1 << 63, math.MaxUint64, 1<<53 + 1}
var float32Bounds = []float32{0, float32(math.Copysign(0, -1)), math.SmallestNonzeroFloat32, -math.SmallestNonzeroFloat32,
	1.1754944e-38, -1.1754944e-38, math.MaxFloat32, -math.MaxFloat32, 1.0 / 3.0, 16777216, 16777218, 0.1, -2.5}
var float64Bounds = []float64{0, math.Copysign(0, -1), math.SmallestNonzeroFloat64, -math.SmallestNonzeroFloat64,
	2.2250738585072014e-308, math.MaxFloat64, -math.MaxFloat64, 1.0 / 3.0, 9007199254740993, 0.1, -2.5, math.MaxFloat32 * 2}
var stringBounds = []string{"", "\x00", "a\x00b", "żółć", "日本語", "\U0001F600", " ", "\n", "\"quoted\"", strings.Repeat("x", 65536)}
var durationBounds = []int64{math.MinInt64, -1, 0, 1, math.MaxInt64, int64(time.Hour), -int64(time.Second)}

func allBytes() []byte {
	b := make([]byte, 256)
	for i := range b {
		b[i] = byte(i)
	}
	return b
}

var bytesBounds = [][]byte{nil, {}, {0xff, 0xfe, 0x80}, {0}, allBytes(), []byte("plain")}

var timeBounds = []time.Time{
	{},
	time.Unix(0, 0).UTC(),
	time.Date(1, 1, 1, 0, 0, 0, 0, time.UTC),
	time.Date(9999, 12, 31, 23, 59, 59, 999999999, time.UTC),
	time.Date(2021, 3, 4, 5, 6, 7, 999999999, time.FixedZone("", -12*3600)),
	time.Date(2021, 3, 4, 5, 6, 7, 1, time.FixedZone("", 14*3600)),
	time.Date(1969, 12, 31, 23, 59, 59, 500, time.FixedZone("", 5*3600+30*60)),
}

type vgen struct {
	t *rapid.T
	o VOpts
}

func (g *vgen) zero() bool {
	return g.o.ZeroBias && rapid.Bool().Draw(g.t, "zero")
}

func (g *vgen) boundary() bool {
	return g.o.Boundary && rapid.Bool().Draw(g.t, "boundary")
}

func (g *vgen) genTime() time.Time {
	if g.boundary() {
		return rapid.SampledFrom(timeBounds).Draw(g.t, "timeb")
	}
	sec := rapid.Int64Range(-62135596800, 253402300799).Draw(g.t, "sec")
	if rapid.Bool().Draw(g.t, "recent") {
		sec = rapid.Int64Range(0, 2000000000).Draw(g.t, "sec2")
	}
	ns := rapid.Int64Range(0, 999999999).Draw(g.t, "ns")
	if rapid.IntRange(0, 3).Draw(g.t, "nsz") == 0 {
		ns = 0
	}
	off := rapid.IntRange(-12*60, 14*60).Draw(g.t, "offmin") * 60
	loc := time.UTC
	if off != 0 && rapid.Bool().Draw(g.t, "zone") {
		loc = time.FixedZone("", off)
	}
	return time.Unix(sec, ns).In(loc)
}

func (g *vgen) genString() string {
	if g.boundary() {
		return rapid.SampledFrom(stringBounds).Draw(g.t, "strb")
	}
	switch rapid.IntRange(0, 5).Draw(g.t, "strk") {
	case 0:
		return ""
	case 1:
		return rapid.String().Draw(g.t, "ustr")
	default:
		return rapid.StringMatching(`[a-z0-9]{1,6}`).Draw(g.t, "str")
	}
}

func (g *vgen) genBytes() []byte {
	if g.boundary() {
		return append([]byte(nil), rapid.SampledFrom(bytesBounds).Draw(g.t, "bytesb")...)
	}
	switch rapid.IntRange(0, 4).Draw(g.t, "bytesk") {
	case 0:
		return nil
	case 1:
		return []byte{}
	default:
		return rapid.SliceOfN(rapid.Byte(), 1, 12).Draw(g.t, "bytes")
	}
}

// value generates a Go value of type typ.
func (g *vgen) value(typ reflect.Type, depth int) reflect.Value {
	t := g.t
	out := reflect.New(typ).Elem()
	switch {
	case typ == timeType:
		if !g.zero() {
			out.Set(reflect.ValueOf(g.genTime()))
		}
		return out
	case typ == durationType || (typ.Kind() == reflect.Int64 && typ.Name() == "Duration"):
		if g.zero() {
			return out
		}
		if g.boundary() {
			out.SetInt(rapid.SampledFrom(durationBounds).Draw(t, "durb"))
		} else {
			out.SetInt(rapid.Int64().Draw(t, "dur"))
		}
		return out
	}
	switch typ.Kind() {
	case reflect.Bool:
		out.SetBool(rapid.Bool().Draw(t, "bool"))
	case reflect.Int32:
		if g.zero() {
			break
		}
		if g.boundary() {
			out.SetInt(rapid.SampledFrom(int32Bounds).Draw(t, "i32b"))
		} else if rapid.Bool().Draw(t, "small") {
			out.SetInt(int64(rapid.Int32Range(-3, 5).Draw(t, "i32s")))
		} else {
			out.SetInt(int64(rapid.Int32().Draw(t, "i32")))
		}
	case reflect.Int64, reflect.Int:
		if g.zero() {
			break
		}
		if g.boundary() {
			out.SetInt(rapid.SampledFrom(int64Bounds).Draw(t, "i64b"))
		} else if rapid.Bool().Draw(t, "small") {
			out.SetInt(rapid.Int64Range(-3, 5).Draw(t, "i64s"))
		} else {
			out.SetInt(rapid.Int64().Draw(t, "i64"))
		}
	case reflect.Uint32:
		if g.zero() {
			break
		}
		if g.boundary() {
			out.SetUint(rapid.SampledFrom(uint32Bounds).Draw(t, "u32b"))
		} else if rapid.Bool().Draw(t, "small") {
			out.SetUint(uint64(rapid.Uint32Range(0, 5).Draw(t, "u32s")))
		} else {
			out.SetUint(uint64(rapid.Uint32().Draw(t, "u32")))
		}
	case reflect.Uint64, reflect.Uint:
		if g.zero() {
			break
		}
		if g.boundary() {
			out.SetUint(rapid.SampledFrom(uint64Bounds).Draw(t, "u64b"))
		} else if rapid.Bool().Draw(t, "small") {
			out.SetUint(rapid.Uint64Range(0, 5).Draw(t, "u64s"))
		} else {
			out.SetUint(rapid.Uint64().Draw(t, "u64"))
		}
	case reflect.Float32:
		if g.zero() {
			break
		}
		if g.boundary() {
			if rapid.Bool().Draw(t, "f32bits") {
				// random bit pattern, filtered to finite by construction: clear an all-ones exponent
				bits := rapid.Uint32().Draw(t, "f32bitsv")
				if bits&0x7f800000 == 0x7f800000 {
					bits &^= 0x00800000
				}
				out.SetFloat(float64(math.Float32frombits(bits)))
			} else {
				out.SetFloat(float64(rapid.SampledFrom(float32Bounds).Draw(t, "f32b")))
			}
		} else {
			out.SetFloat(float64(rapid.Float32().Draw(t, "f32")))
		}
	case reflect.Float64:
		if g.zero() {
			break
		}
		if g.boundary() {
			if rapid.Bool().Draw(t, "f64bits") {
				bits := rapid.Uint64().Draw(t, "f64bitsv")
				if bits&0x7ff0000000000000 == 0x7ff0000000000000 {
					bits &^= 0x0010000000000000
				}
				out.SetFloat(math.Float64frombits(bits))
			} else {
				out.SetFloat(rapid.SampledFrom(float64Bounds).Draw(t, "f64b"))
			}
		} else {
			out.SetFloat(rapid.Float64().Draw(t, "f64"))
		}
	case reflect.String:
		if g.zero() {
			break
		}
		out.SetString(g.genString())
	case reflect.Slice:
		if typ.Elem().Kind() == reflect.Uint8 {
			if g.zero() {
				break
			}
			b := g.genBytes()
			if b != nil {
				out.Set(reflect.ValueOf(b).Convert(typ))
			}
			break
		}
		switch k := rapid.IntRange(0, 5).Draw(t, "slicek"); {
		case k == 0 || g.zero():
			// nil
		case k == 1:
			out.Set(reflect.MakeSlice(typ, 0, 0))
		default:
			max := 3
			if depth > 2 {
				max = 2
			}
			n := rapid.IntRange(1, max).Draw(t, "slicen")
			s := reflect.MakeSlice(typ, n, n)
			for i := 0; i < n; i++ {
				s.Index(i).Set(g.value(typ.Elem(), depth+1))
			}
			out.Set(s)
		}
	case reflect.Map:
		switch k := rapid.IntRange(0, 5).Draw(t, "mapk"); {
		case k == 0 || g.zero():
		case k == 1:
			out.Set(reflect.MakeMap(typ))
		default:
			max := 3
			if depth > 2 {
				max = 2
			}
			n := rapid.IntRange(1, max).Draw(t, "mapn")
			m := reflect.MakeMap(typ)
			for i := 0; i < n; i++ {
				var key string
				switch rapid.IntRange(0, 7).Draw(t, "keyk") {
				case 0:
					key = ""
				case 1:
					key = rapid.String().Draw(t, "ukey")
				case 2:
					if len(g.o.KeyPool) > 0 {
						key = rapid.SampledFrom(g.o.KeyPool).Draw(t, "poolkey")
						break
					}
					fallthrough
				default:
					key = rapid.StringMatching(`[a-z]{1,3}`).Draw(t, "key")
				}
				m.SetMapIndex(reflect.ValueOf(key).Convert(typ.Key()), g.value(typ.Elem(), depth+1))
			}
			out.Set(m)
		}
	case reflect.Ptr:
		if rapid.IntRange(0, 3).Draw(t, "nilptr") == 0 || g.zero() {
			break
		}
		p := reflect.New(typ.Elem())
		p.Elem().Set(g.value(typ.Elem(), depth))
		out.Set(p)
	case reflect.Struct:
		out.Set(g.structValue(typ, depth+1))
	}
	return out
}

// structValue generates a gogo message struct: protobuf fields and oneof holders; XXX_ bookkeeping stays zero.
func (g *vgen) structValue(st reflect.Type, depth int) reflect.Value {
	out := reflect.New(st).Elem()
	// oneof wrappers per holder
	wrappers := map[int][]reflect.Type{}
	for _, r := range structFields(st) {
		if r.oneof != nil {
			wrappers[r.oneof.holder] = append(wrappers[r.oneof.holder], r.oneof.wrapper)
		}
	}
	for i := 0; i < st.NumField(); i++ {
		f := st.Field(i)
		if strings.HasPrefix(f.Name, "XXX_") {
			continue
		}
		if f.Tag.Get("protobuf_oneof") != "" {
			ws := wrappers[i]
			sortTypes(ws)
			k := rapid.IntRange(0, len(ws)).Draw(g.t, "branch")
			if k == 0 {
				continue
			}
			wt := ws[k-1]
			w := reflect.New(wt.Elem())
			w.Elem().Field(0).Set(g.value(wt.Elem().Field(0).Type, depth))
			out.Field(i).Set(w)
			continue
		}
		if protoName(f.Tag) == "" {
			continue
		}
		out.Field(i).Set(g.value(f.Type, depth))
	}
	return out
}

func sortTypes(ts []reflect.Type) {
	for i := 1; i < len(ts); i++ {
		for j := i; j > 0 && ts[j].String() < ts[j-1].String(); j-- {
			ts[j], ts[j-1] = ts[j-1], ts[j]
		}
	}
}

// GenStruct draws a value of the message struct type st; the result is a pointer to the struct.
func GenStruct(t *rapid.T, st reflect.Type, o VOpts) reflect.Value {
	if o.KeyPool == nil {
		o.KeyPool = keyPools[st]
	}
	g := &vgen{t: t, o: o}
	p := reflect.New(st)
	p.Elem().Set(g.structValue(st, 0))
	return p
}

// keyPools: struct type of a root -> attribute names of its schema (filled when the case is loaded).
var keyPools = map[reflect.Type][]string{}
