package rt

import (
	"encoding/json"
	"flag"
	"fmt"
	"hash/fnv"
	"os"
	"reflect"
	"sort"
	"strings"
	"sync"
	"testing"

	"github.com/hashicorp/terraform-plugin-framework/attr"
	"github.com/hashicorp/terraform-plugin-framework/diag"
	"github.com/hashicorp/terraform-plugin-framework/tfsdk"
	"github.com/hashicorp/terraform-plugin-framework/types"
	"pgregory.net/rapid"

	"verif/model"
)

// Spec tells a compiled case what to do.
type Spec struct {
	Prop   string            `json:"prop"`
	Models map[string]string `json:"models"` // variant -> model file (relative to the case dir)
	Params map[string]string `json:"params,omitempty"`
}

// Result is what the compiled case reports back to the outer level.
type Result struct {
	Prop        string         `json:"prop"`
	Evaluations int            `json:"evaluations"`
	Nontrivial  []uint64       `json:"nontrivial"`
	Classes     map[string]int `json:"classes"`
	Samples     []string       `json:"samples"`
	Violation   string         `json:"violation,omitempty"`
	Harness     string         `json:"harness,omitempty"` // fault of the harness itself
	seen        map[uint64]bool
	failed      bool
	mu          sync.Mutex
}

func (r *Result) Class(c string) {
	if r.failed {
		return
	}
	r.Classes[c]++
}

func (r *Result) Nontriv(desc string) {
	if r.failed {
		return
	}
	h := fnv.New64a()
	h.Write([]byte(desc))
	s := h.Sum64()
	if !r.seen[s] {
		r.seen[s] = true
		r.Nontrivial = append(r.Nontrivial, s)
	}
}

func (r *Result) Sample(s string) {
	if r.failed || len(r.Samples) >= 3 {
		return
	}
	if len(s) > 1500 {
		s = s[:1500] + "…"
	}
	r.Samples = append(r.Samples, s)
}

// RootCtx is a registered root type bound to its model and run-time schema.
type RootCtx struct {
	R      *Root
	M      *model.Msg
	Mdl    *model.Model
	B      *MsgB
	Schema tfsdk.Schema
	Type   types.ObjectType
}

// Env is the whole compiled case.
type Env struct {
	Spec   Spec
	Roots  []*RootCtx
	ByVar  map[string][]*RootCtx
	Res    *Result
	Params map[string]string
	// FuzzOut: under the native fuzzer a violation is appended to this file by the worker that found it
	FuzzOut string
}

func (e *Env) Param(k, def string) string {
	if v, ok := e.Params[k]; ok {
		return v
	}
	return def
}

// Fail records a violation and fails the rapid case.
func (e *Env) Fail(t *rapid.T, format string, args ...interface{}) {
	msg := fmt.Sprintf(format, args...)
	e.Res.Violation = msg
	e.Res.failed = true
	if e.FuzzOut != "" {
		if fh, err := os.OpenFile(e.FuzzOut, os.O_APPEND|os.O_CREATE|os.O_WRONLY, 0o644); err == nil {
			fmt.Fprintln(fh, msg)
			fh.Close()
		}
	}
	t.Fatalf("%s", msg)
}

func safeSchema(r *Root) (s tfsdk.Schema, d diag.Diagnostics, p string) {
	defer func() {
		if x := recover(); x != nil {
			p = fmt.Sprint(x)
		}
	}()
	s, d = r.Schema(bg)
	return
}

// CopyTo calls the generated CopyTToTerraform, turning a panic into a message.
func (rc *RootCtx) CopyTo(src reflect.Value, obj *types.Object) (d diag.Diagnostics, p string) {
	defer func() {
		if x := recover(); x != nil {
			p = fmt.Sprint(x)
		}
	}()
	d = rc.R.To(bg, src.Interface(), obj)
	return
}

// CopyFrom calls the generated CopyTFromTerraform, turning a panic into a message.
func (rc *RootCtx) CopyFrom(obj types.Object, dst reflect.Value) (d diag.Diagnostics, p string) {
	defer func() {
		if x := recover(); x != nil {
			p = fmt.Sprint(x)
		}
	}()
	d = rc.R.From(bg, obj, dst.Interface())
	return
}

func (rc *RootCtx) New() reflect.Value { return reflect.ValueOf(rc.R.New()) }

func (rc *RootCtx) Empty() types.Object { return types.Object{AttrTypes: rc.Type.AttrTypes} }

func diagStrings(d diag.Diagnostics) []string {
	var out []string
	for _, x := range d {
		out = append(out, fmt.Sprintf("%s|%s|%s", x.Severity(), x.Summary(), x.Detail()))
	}
	sort.Strings(out)
	return out
}

func errorDiags(d diag.Diagnostics) []string {
	var out []string
	for _, x := range d {
		if x.Severity() == diag.SeverityError {
			out = append(out, x.Summary()+": "+x.Detail())
		}
	}
	return out
}

var inner = map[string]func(t *rapid.T, e *Env){}

// loadEnv reads the spec, binds every registered root to its model and returns the environment of the case.
// Violations found while loading (GenSchema panics / errors) are reported through res.
func loadEnv(t testing.TB, res *Result) *Env {
	p := os.Getenv("VERIF_SPEC")
	harness := func(format string, a ...interface{}) {
		res.Harness = fmt.Sprintf(format, a...)
		t.Fatalf("harness: %s", res.Harness)
	}
	b, err := os.ReadFile(p)
	if err != nil {
		harness("spec: %v", err)
	}
	env := &Env{ByVar: map[string][]*RootCtx{}, Res: res}
	if err := json.Unmarshal(b, &env.Spec); err != nil {
		harness("spec: %v", err)
	}
	env.Params = env.Spec.Params
	res.Prop = env.Spec.Prop
	variants := make([]string, 0, len(env.Spec.Models))
	for v := range env.Spec.Models {
		variants = append(variants, v)
	}
	sort.Strings(variants)
	for _, v := range variants {
		mb, err := os.ReadFile(env.Spec.Models[v])
		if err != nil {
			harness("model: %v", err)
		}
		var mdl model.Model
		if err := json.Unmarshal(mb, &mdl); err != nil {
			harness("model: %v", err)
		}
		for _, m := range mdl.Roots {
			r := findRoot(v, m.Name)
			if r == nil {
				harness("root %s/%s not registered", v, m.Name)
			}
			rc := &RootCtx{R: r, M: m, Mdl: &mdl}
			s, d, pn := safeSchema(r)
			if pn != "" {
				res.Violation = fmt.Sprintf("GenSchema%s panicked: %s", m.Name, pn)
				t.Fatalf("%s", res.Violation)
			}
			if d.HasError() {
				res.Violation = fmt.Sprintf("GenSchema%s returned error diagnostics: %v", m.Name, errorDiags(d))
				t.Fatalf("%s", res.Violation)
			}
			rc.Schema = s
			ot, ok := s.AttributeType().(types.ObjectType)
			if !ok {
				harness("schema type is %T", s.AttributeType())
			}
			rc.Type = ot
			bnd, err := Bind(m, reflect.TypeOf(r.New()))
			if err != nil {
				harness("bind: %v", err)
			}
			rc.B = bnd
			keyPools[bnd.Typ] = attrNamePool(bnd)
			env.Roots = append(env.Roots, rc)
			env.ByVar[v] = append(env.ByVar[v], rc)
		}
	}
	if len(env.Roots) == 0 {
		harness("no roots")
	}
	if inner[env.Spec.Prop] == nil {
		harness("no inner property %q", env.Spec.Prop)
	}
	setupHooks()
	return env
}

// Run is the single test of a compiled case.
func Run(t *testing.T) {
	if os.Getenv("VERIF_SPEC") == "" {
		t.Skip("no VERIF_SPEC")
	}
	res := &Result{Classes: map[string]int{}, seen: map[uint64]bool{}}
	defer func() {
		if out := os.Getenv("VERIF_OUT"); out != "" {
			b, _ := json.MarshalIndent(res, "", " ")
			_ = os.WriteFile(out, b, 0o644)
		}
	}()
	env := loadEnv(t, res)
	fn := inner[env.Spec.Prop]
	_ = flag.CommandLine
	rapid.Check(t, func(rt *rapid.T) {
		if !res.failed {
			res.Evaluations++
		}
		fn(rt, env)
	})
}

// Fuzz is the native fuzz target of a compiled case (engine F): the byte input is rapid's bit
// stream, so the inner property, its generators and its oracle are exactly those of Run.
func Fuzz(f *testing.F) {
	if os.Getenv("VERIF_SPEC") == "" {
		f.Skip("no VERIF_SPEC")
	}
	res := &Result{Classes: map[string]int{}, seen: map[uint64]bool{}}
	env := loadEnv(f, res)
	env.FuzzOut = os.Getenv("VERIF_FUZZ_OUT")
	fn := inner[env.Spec.Prop]
	for _, seed := range [][]byte{{}, {0}, {0xff, 0xff, 0xff, 0xff, 0xff, 0xff, 0xff, 0xff}, []byte("0123456789abcdef0123456789abcdef")} {
		f.Add(seed)
	}
	// (the long pseudo-random seeds of a campaign are corpus files written by pipeline.FuzzCase: a failing corpus
	// file can be named and replayed, a failing f.Add seed cannot)
	f.Fuzz(rapid.MakeFuzz(func(rt *rapid.T) { fn(rt, env) }))
}

func drawRoot(t *rapid.T, e *Env) *RootCtx {
	return e.Roots[rapid.IntRange(0, len(e.Roots)-1).Draw(t, "root")]
}

func typeName(t attr.Type) string {
	if t == nil {
		return "<nil>"
	}
	return strings.ReplaceAll(t.String(), "github.com/hashicorp/terraform-plugin-framework/", "")
}
