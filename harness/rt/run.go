package rt

import (
	"encoding/json"
	"os"
	"testing"
)

// Spec tells a compiled case what to do.
type Spec struct {
	Prop     string            `json:"prop"`
	Models   map[string]string `json:"models"` // variant -> model file
	Checks   int               `json:"checks"`
	Seed     uint64            `json:"seed"`
	Params   map[string]string `json:"params,omitempty"`
}

// Run is the single test of a compiled case.
func Run(t *testing.T) {
	p := os.Getenv("VERIF_SPEC")
	if p == "" {
		t.Skip("no VERIF_SPEC")
	}
	b, err := os.ReadFile(p)
	if err != nil {
		t.Fatalf("spec: %v", err)
	}
	var s Spec
	if err := json.Unmarshal(b, &s); err != nil {
		t.Fatalf("spec: %v", err)
	}
	_ = s
}
