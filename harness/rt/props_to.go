package rt

import (
	"fmt"
	"reflect"
	"sort"
	"strings"
	"time"

	"github.com/hashicorp/terraform-plugin-framework/attr"
	"github.com/hashicorp/terraform-plugin-framework/tfsdk"
	"github.com/hashicorp/terraform-plugin-framework/types"
	"github.com/hashicorp/terraform-plugin-go/tftypes"
	"github.com/stoewer/go-strcase"
	"pgregory.net/rapid"

	"verif/model"
)

func init() {
	inner["C02"] = propC02
	inner["C03"] = propC03
	inner["C04"] = propC04
	inner["C10"] = propC10
	inner["C19"] = propC19
	inner["C20"] = propC20
}

// toEmpty runs CopyTo into an empty schema-typed object and applies the "total" half of C03.
func toEmpty(t *rapid.T, e *Env, rc *RootCtx, x reflect.Value, what string) *Node {
	obj := rc.Empty()
	d, p := rc.CopyTo(x, &obj)
	if p != "" {
		e.Fail(t, "Copy%sToTerraform panicked on %s into an empty object: %s; source %s", rc.M.Name, what, p, describe(rc, x))
	}
	if errs := errorDiags(d); len(errs) > 0 {
		e.Fail(t, "Copy%sToTerraform returned error diagnostics on %s into an empty object: %v; source %s", rc.M.Name, what, errs, describe(rc, x))
	}
	return ToNode(obj)
}

func describe(rc *RootCtx, x reflect.Value) string {
	s := fmt.Sprintf("%v", NF(rc.B, x.Elem()))
	if len(s) > 700 {
		s = s[:700] + "…"
	}
	return rc.M.Name + s
}

// valueClasses classifies a struct value for the non-triviality rules.
type vclass struct {
	nilEmbed, emptyColl, nilElem, zeroOneof, depth2, nonzeroDeep, zeroAndNonzeroDeep, composite bool
}

func classify(b *MsgB, sv reflect.Value, depth int, c *vclass) (zero, nonzero bool) {
	for _, ab := range b.Attrs {
		if ab.A.Kind == "placeholder" || ab.A.Custom != nil {
			continue
		}
		if ab.UnderNilEmbed(sv) {
			c.nilEmbed = true
			continue
		}
		v, ok := ab.Get(sv)
		if !ok {
			continue
		}
		if ab.A.Oneof != "" {
			z := false
			if v.Kind() == reflect.Ptr {
				z = v.IsNil()
			} else if ab.Sub == nil {
				z = isZeroLeaf(v)
			}
			if z {
				c.zeroOneof = true
			}
		}
		var elems []reflect.Value
		switch ab.A.Card {
		case "repeated":
			c.composite = true
			if !v.IsNil() && v.Len() == 0 {
				c.emptyColl = true
			}
			for i := 0; i < v.Len(); i++ {
				elems = append(elems, v.Index(i))
			}
		case "map":
			c.composite = true
			if !v.IsNil() && v.Len() == 0 {
				c.emptyColl = true
			}
			for _, k := range v.MapKeys() {
				elems = append(elems, v.MapIndex(k))
			}
		default:
			elems = []reflect.Value{v}
		}
		below := depth >= 1 || ab.A.Card != "" || ab.A.Oneof != ""
		for _, ev := range elems {
			if ev.Kind() == reflect.Ptr {
				if ev.IsNil() {
					if ab.A.Card != "" {
						c.nilElem = true
					}
					if below {
						zero = true
					}
					continue
				}
				ev = ev.Elem()
			}
			if ab.Sub != nil {
				c.composite = true
				if depth+1 >= 2 {
					c.depth2 = true
				}
				z, nz := classify(ab.Sub, ev, depth+1, c)
				zero = zero || z
				nonzero = nonzero || nz
				continue
			}
			if ev.Type() == timeType {
				if !ev.Interface().(time.Time).IsZero() && below {
					nonzero = true
				}
				continue
			}
			if isZeroLeaf(ev) {
				if below {
					zero = true
				}
			} else if below {
				nonzero = true
			}
		}
	}
	return
}

// ------------------------------------------------------------------ C03

// conform walks the result of CopyTo against the schema's attribute type.
func conform(path string, typ attr.Type, got attr.Value, m *model.Msg) string {
	if got == nil {
		return fmt.Sprintf("%s: nil attr.Value", path)
	}
	if gt := got.Type(bg); gt == nil || !gt.Equal(typ) {
		return fmt.Sprintf("%s: value of type %s, schema says %s", path, typeName(got.Type(bg)), typeName(typ))
	}
	if got.IsUnknown() {
		return fmt.Sprintf("%s: unknown after CopyTo", path)
	}
	switch x := got.(type) {
	case types.Object:
		if x.Null {
			return ""
		}
		ot := typ.(types.ObjectType)
		injected := map[string]bool{}
		var byName map[string]*model.Attr
		if m != nil {
			byName = map[string]*model.Attr{}
			for _, i := range m.Injected {
				injected[i.Name] = true
			}
			for _, a := range m.Attrs {
				byName[a.Name] = a
			}
		}
		names := make([]string, 0, len(ot.AttrTypes))
		for n := range ot.AttrTypes {
			names = append(names, n)
		}
		sort.Strings(names)
		for _, n := range names {
			if injected[n] {
				continue
			}
			v, ok := x.Attrs[n]
			if !ok {
				return fmt.Sprintf("%s.%s: attribute of the schema is absent after CopyTo", path, n)
			}
			var sub *model.Msg
			if a := byName[n]; a != nil {
				sub = a.Msg
			}
			if msg := conform(path+"."+n, ot.AttrTypes[n], v, sub); msg != "" {
				return msg
			}
		}
	case types.List:
		if x.Null {
			return ""
		}
		for i, el := range x.Elems {
			if msg := conform(fmt.Sprintf("%s[%d]", path, i), x.ElemType, el, m); msg != "" {
				return msg
			}
		}
	case types.Map:
		if x.Null {
			return ""
		}
		keys := make([]string, 0, len(x.Elems))
		for k := range x.Elems {
			keys = append(keys, k)
		}
		sort.Strings(keys)
		for _, k := range keys {
			if msg := conform(fmt.Sprintf("%s[%q]", path, k), x.ElemType, x.Elems[k], m); msg != "" {
				return msg
			}
		}
	}
	return ""
}

// fillInjected sets every attribute that has a type but no value to a null of that type
// (these are the injected attributes the converters never touch).
func fillInjected(n *Node) {
	switch n.Kind {
	case "object":
		if n.Null || n.Unknown {
			return
		}
		if n.Attrs == nil {
			n.Attrs = map[string]*Node{}
			n.NilAttrs = false
		}
		for k, t := range n.AttrTypes {
			if _, ok := n.Attrs[k]; !ok {
				v, err := t.ValueFromTerraform(bg, tftypes.NewValue(t.TerraformType(bg), nil))
				if err == nil {
					n.Attrs[k] = &Node{Kind: "raw", Raw: v}
				}
			}
		}
		for _, c := range n.Attrs {
			fillInjected(c)
		}
	case "list":
		for _, c := range n.Elems {
			fillInjected(c)
		}
	case "map":
		for _, c := range n.MapElems {
			fillInjected(c)
		}
	}
}

func frameworkAccepts(rc *RootCtx, n *Node) string {
	full := n.Clone()
	fillInjected(full)
	obj := full.Object()
	tv, err := obj.ToTerraformValue(bg)
	if err != nil {
		return "the result does not convert to a Terraform value: " + err.Error()
	}
	want := rc.Schema.TerraformType(bg)
	if !tv.Type().Is(want) {
		return fmt.Sprintf("the result converts to Terraform type %s, schema says %s", tv.Type(), want)
	}
	if _, err := rc.Type.ValueFromTerraform(bg, tv); err != nil {
		return "the framework cannot decode the result with the schema type: " + err.Error()
	}
	st := tfsdk.State{Schema: rc.Schema, Raw: tftypes.NewValue(want, nil)}
	if d := st.Set(bg, obj); d.HasError() {
		return fmt.Sprintf("tfsdk.State.Set rejects the result: %v", errorDiags(d))
	}
	return ""
}

func propC03(t *rapid.T, e *Env) {
	rc := drawRoot(t, e)
	x := GenStruct(t, rc.B.Typ, VOpts{})
	n := toEmpty(t, e, rc, x, "a generated value")
	if msg := conform(rc.M.Name, rc.Type, n.Attr(), rc.M); msg != "" {
		e.Fail(t, "C03 result not schema-conformant: %s; source %s", msg, describe(rc, x))
	}
	if msg := frameworkAccepts(rc, n); msg != "" {
		e.Fail(t, "C03 %s; source %s", msg, describe(rc, x))
	}
	var c vclass
	classify(rc.B, x.Elem(), 0, &c)
	noteClasses(e, &c)
	if c.nilEmbed || c.emptyColl || c.nilElem || c.zeroOneof || c.depth2 {
		e.Res.Nontriv(describe(rc, x))
	}
	e.Res.Sample(describe(rc, x) + " => " + n.String())
}

func noteClasses(e *Env, c *vclass) {
	for k, v := range map[string]bool{"nil_embedded": c.nilEmbed, "empty_collection": c.emptyColl, "nil_element": c.nilElem,
		"zero_oneof_payload": c.zeroOneof, "depth>=2": c.depth2, "composite": c.composite} {
		if v {
			e.Res.Class(k)
		}
	}
}

// ------------------------------------------------------------------ C04 / C19

func roundTrip(t *rapid.T, e *Env, rc *RootCtx, x reflect.Value, prop string) (*Node, reflect.Value) {
	n := toEmpty(t, e, rc, x, "a generated value")
	y := rc.New()
	d, p := rc.CopyFrom(n.Object(), y)
	if p != "" {
		e.Fail(t, "%s: Copy%sFromTerraform panicked on the result of CopyTo: %s; source %s", prop, rc.M.Name, p, describe(rc, x))
	}
	if errs := errorDiags(d); len(errs) > 0 {
		e.Fail(t, "%s: Copy%sFromTerraform returned error diagnostics on the result of CopyTo: %v; source %s", prop, rc.M.Name, errs, describe(rc, x))
	}
	return n, y
}

func propC04(t *rapid.T, e *Env) {
	rc := drawRoot(t, e)
	x := GenStruct(t, rc.B.Typ, VOpts{})
	n, y := roundTrip(t, e, rc, x, "C04")
	a, b := NF(rc.B, x.Elem()), NF(rc.B, y.Elem())
	if diff := DiffNF(a, b); diff != "" {
		e.Fail(t, "C04 round trip of %s is lossy: %s (original vs read back); object %s", rc.M.Name, diff, n.String())
	}
	var c vclass
	_, nz := classify(rc.B, x.Elem(), 0, &c)
	noteClasses(e, &c)
	if nz {
		e.Res.Class("nonzero_leaf_below_composite")
		e.Res.Nontriv(describe(rc, x))
	}
	e.Res.Sample(describe(rc, x))
}

func propC19(t *rapid.T, e *Env) {
	rc := drawRoot(t, e)
	x := GenStruct(t, rc.B.Typ, VOpts{Boundary: true})
	n, y := roundTrip(t, e, rc, x, "C19")
	a, b := NF(rc.B, x.Elem()), NF(rc.B, y.Elem())
	if diff := DiffNF(a, b); diff != "" {
		e.Fail(t, "C19 value does not survive CopyTo;CopyFrom of %s: %s (original vs read back); object %s", rc.M.Name, diff, n.String())
	}
	var c vclass
	_, nz := classify(rc.B, x.Elem(), 0, &c)
	noteClasses(e, &c)
	if nz {
		e.Res.Class("nonzero_leaf_in_nonsingular_shape")
		e.Res.Nontriv(describe(rc, x))
	}
	e.Res.Sample(describe(rc, x))
}

// ------------------------------------------------------------------ C20

func propC20(t *rapid.T, e *Env) {
	rc := drawRoot(t, e)
	x := GenStruct(t, rc.B.Typ, VOpts{ZeroBias: true})
	n := toEmpty(t, e, rc, x, "a generated value")
	exp := ExpectTo(rc.B, rc.Mdl, x.Elem())
	if msg := MatchNode(rc.M.Name, exp, n, MatchOpts{NullOnly: true, AllowExtra: true}); msg != "" {
		e.Fail(t, "C20 absence/presence not rendered as null/non-null: %s; source %s; object %s", msg, describe(rc, x), n.String())
	}
	var c vclass
	z, nz := classify(rc.B, x.Elem(), 0, &c)
	noteClasses(e, &c)
	if z && nz {
		e.Res.Class("zero_and_nonzero_below_root")
		e.Res.Nontriv(describe(rc, x))
	}
	e.Res.Sample(describe(rc, x) + " => " + n.String())
}

// ------------------------------------------------------------------ C02

// skeleton builds a value in which every pointer is allocated, every list/map holds one
// element and no oneof is set.
func skeleton(b *MsgB, sv reflect.Value) {
	for _, ab := range b.Attrs {
		if ab.A.Kind == "placeholder" || ab.A.Custom != nil || ab.A.Oneof != "" {
			continue
		}
		ab.Set(sv, skeletonValue(ab, ab.Typ, false))
	}
}

func skeletonValue(ab *AttrB, typ reflect.Type, elem bool) reflect.Value {
	out := reflect.New(typ).Elem()
	if !elem {
		switch ab.A.Card {
		case "repeated":
			s := reflect.MakeSlice(typ, 1, 1)
			s.Index(0).Set(skeletonValue(ab, typ.Elem(), true))
			return s
		case "map":
			m := reflect.MakeMap(typ)
			m.SetMapIndex(reflect.ValueOf("k").Convert(typ.Key()), skeletonValue(ab, typ.Elem(), true))
			return m
		}
	}
	if typ.Kind() == reflect.Ptr {
		p := reflect.New(typ.Elem())
		p.Elem().Set(skeletonValue(ab, typ.Elem(), true))
		return p
	}
	if ab.Sub != nil && typ.Kind() == reflect.Struct {
		skeleton(ab.Sub, out)
	}
	return out
}

// probeTarget is one field position reachable from the root through the skeleton.
type probeTarget struct {
	path    string                                    // attribute path for messages
	set     func(root reflect.Value, v reflect.Value) // stores a leaf value at the position
	ab      *AttrB
	leafTyp reflect.Type
	nontriv bool
}

// collectProbes lists every leaf position (singular, element, map value, oneof member) of the skeleton.
func collectProbes(b *MsgB, at func(root reflect.Value) reflect.Value, prefix string, depth int, out *[]probeTarget) {
	for _, ab := range b.Attrs {
		ab := ab
		if ab.A.Kind == "placeholder" || ab.A.Custom != nil {
			continue
		}
		path := prefix + "." + ab.A.Name
		elemOf := func(v reflect.Value) reflect.Value { // the single element / map value / the value itself, dereferenced
			switch ab.A.Card {
			case "repeated":
				v = v.Index(0)
			case "map":
				// map values are not addressable: handled by the setter below
			}
			return v
		}
		_ = elemOf
		if ab.Sub != nil {
			if ab.A.Oneof != "" {
				// probing inside a oneof message member: activate it with a skeleton payload
				subAt := func(root reflect.Value) reflect.Value {
					sv := at(root)
					v, ok := ab.Get(sv)
					if !ok || v.IsNil() {
						ab.Set(sv, skeletonValue(ab, ab.Typ, false))
						v, _ = ab.Get(sv)
					}
					return v.Elem()
				}
				collectProbes(ab.Sub, subAt, path, depth+1, out)
				continue
			}
			switch ab.A.Card {
			case "":
				subAt := func(root reflect.Value) reflect.Value {
					v, _ := ab.Get(at(root))
					if v.Kind() == reflect.Ptr {
						return v.Elem()
					}
					return v
				}
				collectProbes(ab.Sub, subAt, path, depth+1, out)
			case "repeated":
				subAt := func(root reflect.Value) reflect.Value {
					v, _ := ab.Get(at(root))
					el := v.Index(0)
					if el.Kind() == reflect.Ptr {
						return el.Elem()
					}
					return el
				}
				collectProbes(ab.Sub, subAt, path+"[0]", depth+1, out)
			case "map":
				// map values are copies: only pointer-valued maps can be probed in place
				if ab.Typ.Elem().Kind() == reflect.Ptr {
					subAt := func(root reflect.Value) reflect.Value {
						v, _ := ab.Get(at(root))
						return v.MapIndex(reflect.ValueOf("k").Convert(ab.Typ.Key())).Elem()
					}
					collectProbes(ab.Sub, subAt, path+`["k"]`, depth+1, out)
				}
			}
			continue
		}
		// leaf
		leaf := ab.Typ
		switch ab.A.Card {
		case "repeated", "map":
			leaf = leaf.Elem()
		}
		ptr := leaf.Kind() == reflect.Ptr
		if ptr {
			leaf = leaf.Elem()
		}
		set := func(root reflect.Value, lv reflect.Value) {
			sv := at(root)
			val := lv
			if ptr {
				p := reflect.New(leaf)
				p.Elem().Set(lv)
				val = p
			}
			switch ab.A.Card {
			case "repeated":
				s := reflect.MakeSlice(ab.Typ, 1, 1)
				s.Index(0).Set(val)
				ab.Set(sv, s)
			case "map":
				m := reflect.MakeMap(ab.Typ)
				m.SetMapIndex(reflect.ValueOf("k").Convert(ab.Typ.Key()), val)
				ab.Set(sv, m)
			default:
				ab.Set(sv, val)
			}
		}
		nontriv := depth > 0 || ab.A.Card != "" || ab.A.Oneof != "" || len(ab.A.Chain) > 1 || ab.A.Cast != "" ||
			ab.A.Name != strcase.SnakeCase(ab.A.Chain[len(ab.A.Chain)-1])
		leafPath := path
		switch ab.A.Card {
		case "repeated":
			leafPath += "[0]"
		case "map":
			leafPath += `["k"]`
		}
		*out = append(*out, probeTarget{path: leafPath, set: set, ab: ab, leafTyp: leaf, nontriv: nontriv})
	}
}

// distinctive returns a recognisable non-zero value of a leaf type.
func distinctive(typ reflect.Type, i int) reflect.Value {
	out := reflect.New(typ).Elem()
	if typ == timeType {
		out.Set(reflect.ValueOf(time.Unix(1600000000+int64(i), 5).In(time.FixedZone("", 3600))))
		return out
	}
	switch typ.Kind() {
	case reflect.Bool:
		out.SetBool(true)
	case reflect.Int32, reflect.Int64, reflect.Int:
		out.SetInt(int64(i + 1))
	case reflect.Uint32, reflect.Uint64, reflect.Uint:
		out.SetUint(uint64(i + 1))
	case reflect.Float32, reflect.Float64:
		out.SetFloat(float64(i) + 1.5)
	case reflect.String:
		out.SetString(fmt.Sprintf("v%d", i))
	case reflect.Slice:
		out.Set(reflect.ValueOf([]byte(fmt.Sprintf("v%d", i))).Convert(typ))
	}
	return out
}

// diffNodes lists the leaf paths at which two trees differ.
func diffNodes(path string, a, b *Node, out *[]string) {
	if a == nil || b == nil {
		if a != b {
			*out = append(*out, path)
		}
		return
	}
	if a.Kind != b.Kind || a.Null != b.Null || a.Unknown != b.Unknown {
		*out = append(*out, path)
		return
	}
	switch a.Kind {
	case "object":
		keys := map[string]bool{}
		for k := range a.Attrs {
			keys[k] = true
		}
		for k := range b.Attrs {
			keys[k] = true
		}
		ks := make([]string, 0, len(keys))
		for k := range keys {
			ks = append(ks, k)
		}
		sort.Strings(ks)
		for _, k := range ks {
			diffNodes(path+"."+k, a.Attrs[k], b.Attrs[k], out)
		}
	case "list":
		if len(a.Elems) != len(b.Elems) {
			*out = append(*out, path)
			return
		}
		for i := range a.Elems {
			diffNodes(fmt.Sprintf("%s[%d]", path, i), a.Elems[i], b.Elems[i], out)
		}
	case "map":
		keys := map[string]bool{}
		for k := range a.MapElems {
			keys[k] = true
		}
		for k := range b.MapElems {
			keys[k] = true
		}
		ks := make([]string, 0, len(keys))
		for k := range keys {
			ks = append(ks, k)
		}
		sort.Strings(ks)
		for _, k := range ks {
			diffNodes(fmt.Sprintf("%s[%q]", path, k), a.MapElems[k], b.MapElems[k], out)
		}
	case "raw":
		if !reflect.DeepEqual(a.Raw, b.Raw) {
			*out = append(*out, path)
		}
	default:
		if a.Null || a.Unknown {
			return
		}
		if !leafEqual(a, b) {
			*out = append(*out, path)
		}
	}
}

func nodeAt(n *Node, path string) *Node {
	// path like Root.a.b[0].c["k"].d ; first element is the root name
	rest := path
	if i := strings.IndexAny(rest, ".["); i >= 0 {
		rest = rest[i:]
	} else {
		return n
	}
	cur := n
	for rest != "" && cur != nil {
		switch {
		case strings.HasPrefix(rest, "[0]"):
			if len(cur.Elems) == 0 {
				return nil
			}
			cur = cur.Elems[0]
			rest = rest[3:]
		case strings.HasPrefix(rest, `["k"]`):
			cur = cur.MapElems["k"]
			rest = rest[5:]
		case rest[0] == '.':
			rest = rest[1:]
			j := strings.IndexAny(rest, ".[")
			name := rest
			if j >= 0 {
				name = rest[:j]
				rest = rest[j:]
			} else {
				rest = ""
			}
			cur = cur.Attrs[name]
		default:
			return nil
		}
	}
	return cur
}

func propC02(t *rapid.T, e *Env) {
	rc := drawRoot(t, e)
	// (a) static agreement of names and types, everywhere
	n := 0
	if msg := checkSchemaAttrs(rc.M.Name, rc.Schema.Attributes, rc.M, rc.Mdl, schemaMode{names: true}, &n); msg != "" {
		e.Fail(t, "C02 %s", msg)
	}
	if !rc.Type.Equal(ExpObjectType(rc.M, rc.Mdl)) {
		e.Fail(t, "C02 schema type of %s is %s, want %s", rc.M.Name, typeName(rc.Type), typeName(ExpObjectType(rc.M, rc.Mdl)))
	}
	var probes []probeTarget
	collectProbes(rc.B, func(root reflect.Value) reflect.Value { return root }, rc.M.Name, 0, &probes)
	if len(probes) == 0 {
		return
	}
	pi := rapid.IntRange(0, len(probes)-1).Draw(t, "probe")
	pr := probes[pi]
	i := rapid.IntRange(0, 40).Draw(t, "distinct")
	// (b) write probe
	base := rc.New()
	skeleton(rc.B, base.Elem())
	probe := rc.New()
	skeleton(rc.B, probe.Elem())
	// activating a oneof message member for an inner probe must happen in both values
	lv := distinctive(pr.leafTyp, i)
	pr.set(probe.Elem(), lv)
	if pr.ab.A.Oneof == "" {
		// make the base identical except for the probed leaf: same containers, zero leaf
		pr.set(base.Elem(), reflect.Zero(pr.leafTyp))
	}
	alignOneofs(rc.B, probe.Elem(), base.Elem())
	nb := toEmpty(t, e, rc, base, "the skeleton value")
	np := toEmpty(t, e, rc, probe, "the probe value")
	var diffs []string
	diffNodes(rc.M.Name, nb, np, &diffs)
	if len(diffs) != 1 || diffs[0] != pr.path {
		e.Fail(t, "C02 write probe: setting field %s (attribute path %s) to a distinctive value changed %v, want exactly [%s]; base %s; probe %s",
			pr.ab.A.TypeKey, pr.path, diffs, pr.path, nb.String(), np.String())
	}
	want := expLeaf(pr.ab.A, rc.Mdl, lv)
	got := nodeAt(np, pr.path)
	if got == nil || got.Kind != want.Kind || got.Null || got.Unknown || !leafEqual(want, got) {
		e.Fail(t, "C02 write probe: attribute %s holds %s, want %s", pr.path, got.String(), want.String())
	}
	// (c) read probe: the object of the base with that one attribute known
	yb, yp := rc.New(), rc.New()
	if d, p := rc.CopyFrom(nb.Object(), yb); p != "" || len(errorDiags(d)) > 0 {
		e.Fail(t, "C02 read probe: CopyFrom failed on the skeleton object: %s %v", p, errorDiags(d))
	}
	if d, p := rc.CopyFrom(np.Object(), yp); p != "" || len(errorDiags(d)) > 0 {
		e.Fail(t, "C02 read probe: CopyFrom failed on the probe object: %s %v", p, errorDiags(d))
	}
	if diff := DiffNF(NF(rc.B, probe.Elem()), NF(rc.B, yp.Elem())); diff != "" {
		e.Fail(t, "C02 read probe: reading the probe object back does not give the probe value: %s", diff)
	}
	if diff := DiffNF(NF(rc.B, base.Elem()), NF(rc.B, yb.Elem())); diff != "" {
		e.Fail(t, "C02 read probe: reading the skeleton object back does not give the skeleton value: %s", diff)
	}
	var nfd []string
	diffNF("", NF(rc.B, yb.Elem()), NF(rc.B, yp.Elem()), &nfd)
	if len(nfd) != 1 {
		e.Fail(t, "C02 read probe: making attribute %s known changed %d fields (%v), want exactly one", pr.path, len(nfd), nfd)
	}
	e.Res.Class("probe:" + pr.ab.A.Kind + "/" + cardName(pr.ab.A))
	if len(pr.ab.A.Chain) > 1 {
		e.Res.Class("probe_embedded")
	}
	if strings.Count(pr.path, ".") > 1 {
		e.Res.Class("probe_nested")
	}
	if pr.nontriv {
		e.Res.Nontriv(fmt.Sprintf("%s/%s/%d", rc.M.Name, pr.path, i))
	}
	e.Res.Sample(fmt.Sprintf("probe %s of %s with %v => %s", pr.path, rc.M.Name, lv.Interface(), got.String()))
}

func cardName(a *model.Attr) string {
	switch {
	case a.Oneof != "":
		return "oneof"
	case a.Card == "":
		return "single"
	}
	return a.Card
}

// alignOneofs copies the oneof holders activated in src (message members activated for inner probes) to dst.
func alignOneofs(b *MsgB, src, dst reflect.Value) {
	for _, ab := range b.Attrs {
		if ab.A.Oneof == "" || ab.Sub == nil {
			if ab.Sub != nil && ab.A.Card == "" && ab.A.Custom == nil {
				sv, ok1 := ab.Get(src)
				dv, ok2 := ab.Get(dst)
				if ok1 && ok2 {
					if sv.Kind() == reflect.Ptr {
						if sv.IsNil() || dv.IsNil() {
							continue
						}
						sv, dv = sv.Elem(), dv.Elem()
					}
					alignOneofs(ab.Sub, sv, dv)
				}
			}
			if ab.Sub != nil && ab.A.Card == "repeated" && ab.A.Custom == nil {
				sv, ok1 := ab.Get(src)
				dv, ok2 := ab.Get(dst)
				if ok1 && ok2 && sv.Len() > 0 && dv.Len() > 0 {
					s0, d0 := sv.Index(0), dv.Index(0)
					if s0.Kind() == reflect.Ptr {
						if s0.IsNil() || d0.IsNil() {
							continue
						}
						s0, d0 = s0.Elem(), d0.Elem()
					}
					alignOneofs(ab.Sub, s0, d0)
				}
			}
			if ab.Sub != nil && ab.A.Card == "map" && ab.A.Custom == nil && ab.Typ.Elem().Kind() == reflect.Ptr {
				sv, ok1 := ab.Get(src)
				dv, ok2 := ab.Get(dst)
				k := reflect.ValueOf("k")
				if ok1 && ok2 && sv.Len() > 0 && dv.Len() > 0 {
					s0, d0 := sv.MapIndex(k.Convert(ab.Typ.Key())), dv.MapIndex(k.Convert(ab.Typ.Key()))
					if s0.IsValid() && d0.IsValid() && !s0.IsNil() && !d0.IsNil() {
						alignOneofs(ab.Sub, s0.Elem(), d0.Elem())
					}
				}
			}
			continue
		}
		sv, ok := ab.Get(src)
		if !ok || sv.IsNil() {
			continue
		}
		if _, ok := ab.Get(dst); !ok {
			ab.Set(dst, skeletonValue(ab, ab.Typ, false))
		}
		dv, _ := ab.Get(dst)
		alignOneofs(ab.Sub, sv.Elem(), dv.Elem())
	}
}

// ------------------------------------------------------------------ C10

func propC10(t *rapid.T, e *Env) {
	for _, rc := range e.Roots {
		n := 0
		if msg := checkSchemaAttrs(rc.M.Name, rc.Schema.Attributes, rc.M, rc.Mdl, schemaMode{flags: true}, &n); msg != "" {
			e.Fail(t, "C10 %s", msg)
		}
		if !e.Res.failed {
			e.Res.Classes["attributes_checked"] += n
		}
	}
}
