package rt

import (
	"encoding/json"
	"fmt"
	"math"
	"reflect"
	"sort"
	"time"

	"verif/support"
)

// Normal form of struct values (DESIGN.md §5 C04): a tree keyed by proto field
// chains in which nil ≡ empty for slices, maps and byte strings; a oneof whose
// payload is the zero value ≡ unset; a nullable embedded pointer whose struct is
// all-zero ≡ nil (children are reported individually, zero under a nil parent);
// -0.0 ≡ +0.0; times are (instant, nanoseconds, zone offset). Nothing else is identified.

type NFObj map[string]interface{}
type NFList []interface{}
type NFMap map[string]interface{}
type NFNil struct{}

func (NFNil) String() string { return "nil" }

// leafNF normalises a scalar-like Go value.
func leafNF(v reflect.Value) interface{} {
	t := v.Type()
	if t == timeType {
		return "time:" + support.FormatTime(v.Interface().(time.Time))
	}
	switch t.Kind() {
	case reflect.Bool:
		return v.Bool()
	case reflect.Int32, reflect.Int64, reflect.Int:
		return v.Int()
	case reflect.Uint32, reflect.Uint64, reflect.Uint:
		return v.Uint()
	case reflect.Float32, reflect.Float64:
		f := v.Float()
		if f == 0 {
			return float64(0)
		}
		return f
	case reflect.String:
		return v.String()
	case reflect.Slice:
		if t.Elem().Kind() == reflect.Uint8 {
			return "bytes:" + string(v.Bytes())
		}
	}
	panic(fmt.Sprintf("leafNF: unsupported %s", t))
}

// valueNF normalises the value at one attribute position (field, element or map value).
func valueNF(ab *AttrB, v reflect.Value, elem bool) interface{} {
	if ab.A.Custom != nil {
		// the hooks are opaque; nil and empty collections are identified as everywhere else
		if (v.Kind() == reflect.Slice || v.Kind() == reflect.Map) && v.Len() == 0 {
			return "custom:null"
		}
		b, _ := json.Marshal(v.Interface())
		return "custom:" + string(b)
	}
	if !elem {
		switch ab.A.Card {
		case "repeated":
			if v.Len() == 0 {
				return NFNil{}
			}
			out := make(NFList, v.Len())
			for i := range out {
				out[i] = valueNF(ab, v.Index(i), true)
			}
			return out
		case "map":
			if v.Len() == 0 {
				return NFNil{}
			}
			out := NFMap{}
			it := v.MapRange()
			for it.Next() {
				out[it.Key().String()] = valueNF(ab, it.Value(), true)
			}
			return out
		}
	}
	if v.Kind() == reflect.Ptr {
		if v.IsNil() {
			return NFNil{}
		}
		v = v.Elem()
	}
	if ab.Sub != nil {
		return NF(ab.Sub, v)
	}
	return leafNF(v)
}

// zeroNF is the normal form of an absent value at the attribute position.
func zeroNF(ab *AttrB) interface{} {
	if ab.A.Custom != nil {
		b, _ := json.Marshal(reflect.Zero(ab.Typ).Interface())
		return "custom:" + string(b)
	}
	if ab.A.Card != "" {
		return NFNil{}
	}
	t := ab.Typ
	if t.Kind() == reflect.Ptr {
		return NFNil{}
	}
	if ab.Sub != nil {
		return NF(ab.Sub, reflect.Zero(t))
	}
	return leafNF(reflect.Zero(t))
}

// NF computes the normal form of the (flattened) message struct sv.
func NF(b *MsgB, sv reflect.Value) NFObj {
	out := NFObj{}
	for _, ab := range b.Attrs {
		if ab.A.Kind == "placeholder" {
			continue
		}
		v, ok := ab.Get(sv)
		if !ok {
			out[ab.Key()] = zeroNF(ab)
			continue
		}
		out[ab.Key()] = valueNF(ab, v, false)
	}
	return out
}

// DiffNF returns human-readable differences between two normal forms ("" if equal).
func DiffNF(a, b interface{}) string {
	var diffs []string
	diffNF("", a, b, &diffs)
	if len(diffs) == 0 {
		return ""
	}
	if len(diffs) > 6 {
		diffs = append(diffs[:6], fmt.Sprintf("... (%d more)", len(diffs)-6))
	}
	s := ""
	for _, d := range diffs {
		s += d + "; "
	}
	return s
}

func short(v interface{}) string {
	s := fmt.Sprintf("%#v", v)
	if len(s) > 120 {
		s = s[:120] + "..."
	}
	return s
}

func diffNF(path string, a, b interface{}, out *[]string) {
	switch x := a.(type) {
	case NFObj:
		y, ok := b.(NFObj)
		if !ok {
			*out = append(*out, fmt.Sprintf("%s: %s vs %s", path, short(a), short(b)))
			return
		}
		keys := map[string]bool{}
		for k := range x {
			keys[k] = true
		}
		for k := range y {
			keys[k] = true
		}
		ks := make([]string, 0, len(keys))
		for k := range keys {
			ks = append(ks, k)
		}
		sort.Strings(ks)
		for _, k := range ks {
			xv, xok := x[k]
			yv, yok := y[k]
			if !xok || !yok {
				*out = append(*out, fmt.Sprintf("%s.%s: present %v vs %v", path, k, xok, yok))
				continue
			}
			diffNF(path+"."+k, xv, yv, out)
		}
	case NFMap:
		y, ok := b.(NFMap)
		if !ok {
			*out = append(*out, fmt.Sprintf("%s: %s vs %s", path, short(a), short(b)))
			return
		}
		keys := map[string]bool{}
		for k := range x {
			keys[k] = true
		}
		for k := range y {
			keys[k] = true
		}
		ks := make([]string, 0, len(keys))
		for k := range keys {
			ks = append(ks, k)
		}
		sort.Strings(ks)
		for _, k := range ks {
			xv, xok := x[k]
			yv, yok := y[k]
			if !xok || !yok {
				*out = append(*out, fmt.Sprintf("%s[%q]: present %v vs %v", path, k, xok, yok))
				continue
			}
			diffNF(fmt.Sprintf("%s[%q]", path, k), xv, yv, out)
		}
	case NFList:
		y, ok := b.(NFList)
		if !ok || len(x) != len(y) {
			*out = append(*out, fmt.Sprintf("%s: %s vs %s", path, short(a), short(b)))
			return
		}
		for i := range x {
			diffNF(fmt.Sprintf("%s[%d]", path, i), x[i], y[i], out)
		}
	case float64:
		y, ok := b.(float64)
		if !ok || !(x == y || (math.IsNaN(x) && math.IsNaN(y))) {
			*out = append(*out, fmt.Sprintf("%s: %s vs %s", path, short(a), short(b)))
		}
	default:
		if !reflect.DeepEqual(a, b) {
			*out = append(*out, fmt.Sprintf("%s: %s vs %s", path, short(a), short(b)))
		}
	}
}
