package rt

import (
	"reflect"
	"strings"

	"pgregory.net/rapid"
)

// deepCopy copies a Go value built from the shapes gogo structs use.
func deepCopy(v reflect.Value) reflect.Value {
	out := reflect.New(v.Type()).Elem()
	switch v.Kind() {
	case reflect.Ptr:
		if !v.IsNil() {
			p := reflect.New(v.Type().Elem())
			p.Elem().Set(deepCopy(v.Elem()))
			out.Set(p)
		}
	case reflect.Interface:
		if !v.IsNil() {
			out.Set(deepCopy(v.Elem()))
		}
	case reflect.Slice:
		if !v.IsNil() {
			s := reflect.MakeSlice(v.Type(), v.Len(), v.Len())
			for i := 0; i < v.Len(); i++ {
				s.Index(i).Set(deepCopy(v.Index(i)))
			}
			out.Set(s)
		}
	case reflect.Map:
		if !v.IsNil() {
			m := reflect.MakeMap(v.Type())
			it := v.MapRange()
			for it.Next() {
				m.SetMapIndex(it.Key(), deepCopy(it.Value()))
			}
			out.Set(m)
		}
	case reflect.Struct:
		if v.Type() == timeType {
			out.Set(v)
			break
		}
		for i := 0; i < v.NumField(); i++ {
			if out.Field(i).CanSet() {
				out.Field(i).Set(deepCopy(v.Field(i)))
			}
		}
	default:
		out.Set(v)
	}
	return out
}

// cloneStruct copies the struct behind pointer p into a new pointer.
func cloneStruct(p reflect.Value) reflect.Value {
	n := reflect.New(p.Type().Elem())
	n.Elem().Set(deepCopy(p.Elem()))
	return n
}

// mutate changes collections and pointers of a struct value in place: lists grow,
// shrink, become empty or nil; maps lose or gain keys; pointers flip between nil
// and non-nil; scalars sometimes change (C09 histories).
func mutate(t *rapid.T, g *vgen, v reflect.Value, depth int) {
	switch v.Kind() {
	case reflect.Ptr:
		switch rapid.IntRange(0, 4).Draw(t, "mptr") {
		case 0:
			v.Set(reflect.Zero(v.Type()))
		case 1:
			v.Set(g.value(v.Type(), depth))
		default:
			if !v.IsNil() {
				mutate(t, g, v.Elem(), depth)
			}
		}
	case reflect.Interface:
		// oneof holder: handled by the struct case
	case reflect.Slice:
		if v.Type().Elem().Kind() == reflect.Uint8 {
			if rapid.IntRange(0, 2).Draw(t, "mbytes") == 0 {
				v.Set(g.value(v.Type(), depth))
			}
			return
		}
		switch rapid.IntRange(0, 6).Draw(t, "mslice") {
		case 0:
			v.Set(reflect.Zero(v.Type())) // nil
		case 1:
			v.Set(reflect.MakeSlice(v.Type(), 0, 0)) // empty
		case 2:
			if v.Len() > 0 { // shrink
				v.Set(v.Slice(0, v.Len()-1))
			}
		case 3: // grow
			v.Set(reflect.Append(v, g.value(v.Type().Elem(), depth+1)))
		case 4:
			v.Set(g.value(v.Type(), depth))
		default:
			for i := 0; i < v.Len(); i++ {
				mutate(t, g, v.Index(i), depth+1)
			}
		}
	case reflect.Map:
		switch rapid.IntRange(0, 7).Draw(t, "mmap") {
		case 0:
			v.Set(reflect.Zero(v.Type()))
		case 1:
			v.Set(reflect.MakeMap(v.Type()))
		case 2: // drop a key (the smallest, for determinism)
			keys := v.MapKeys()
			if len(keys) > 0 {
				min := keys[0]
				for _, k := range keys {
					if k.String() < min.String() {
						min = k
					}
				}
				v.SetMapIndex(min, reflect.Value{})
			}
		case 3: // add a key
			if v.IsNil() {
				v.Set(reflect.MakeMap(v.Type()))
			}
			k := rapid.StringMatching(`[a-z]{1,3}`).Draw(t, "mkey")
			if len(g.o.KeyPool) > 0 && rapid.IntRange(0, 3).Draw(t, "mpoolkey") == 0 {
				k = rapid.SampledFrom(g.o.KeyPool).Draw(t, "mpool")
			}
			v.SetMapIndex(reflect.ValueOf(k).Convert(v.Type().Key()), g.value(v.Type().Elem(), depth+1))
		case 4:
			v.Set(g.value(v.Type(), depth))
		case 5: // rename a key: same size, another key set
			keys := v.MapKeys()
			if len(keys) > 0 {
				min := keys[0]
				for _, k := range keys {
					if k.String() < min.String() {
						min = k
					}
				}
				val := v.MapIndex(min)
				nk := reflect.ValueOf(min.String() + rapid.StringMatching(`[a-z]{1,2}`).Draw(t, "mrename")).Convert(v.Type().Key())
				if !v.MapIndex(nk).IsValid() {
					v.SetMapIndex(nk, val)
					v.SetMapIndex(min, reflect.Value{})
				}
			}
		default:
		}
	case reflect.Struct:
		if v.Type() == timeType {
			if rapid.IntRange(0, 2).Draw(t, "mtime") == 0 {
				v.Set(g.value(v.Type(), depth))
			}
			return
		}
		st := v.Type()
		for i := 0; i < st.NumField(); i++ {
			f := st.Field(i)
			if strings.HasPrefix(f.Name, "XXX_") {
				continue
			}
			if f.Tag.Get("protobuf_oneof") != "" {
				if rapid.IntRange(0, 2).Draw(t, "moneof") == 0 {
					// switch branch: regenerate the holder from a fresh struct of the same type
					fresh := g.structValue(st, depth)
					v.Field(i).Set(fresh.Field(i))
				}
				continue
			}
			if protoName(f.Tag) == "" {
				continue
			}
			if rapid.IntRange(0, 2).Draw(t, "mfield") != 0 {
				mutate(t, g, v.Field(i), depth)
			}
		}
	default:
		if rapid.IntRange(0, 2).Draw(t, "mscalar") == 0 {
			v.Set(g.value(v.Type(), depth))
		}
	}
}
