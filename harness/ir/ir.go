// Package ir is the intermediate representation of a proto3 file in the
// supported fragment D (DESIGN.md §3.1) and of a plugin configuration K (§3.2).
// It is what the outer generators draw, what replay files store, and what the
// descriptor builder and the reference model consume.
package ir

import (
	"encoding/json"
	"sort"
	"strings"
)

// Scalar proto types.
var Scalars = []string{
	"double", "float", "int32", "int64", "uint32", "uint64", "sint32", "sint64",
	"fixed32", "fixed64", "sfixed32", "sfixed64", "bool", "string", "bytes",
}

// Kinds beyond scalars.
const (
	KEnum      = "enum"
	KMessage   = "message"
	KTimestamp = "timestamp" // google.protobuf.Timestamp + stdtime
	KDuration  = "duration"  // google.protobuf.Duration + stdduration
	KGroup     = "group"     // unmappable probe only (C18)
)

const (
	Single   = ""
	Repeated = "repeated"
	Map      = "map"
)

type Comments struct {
	Leading  string   `json:"leading,omitempty"`
	Trailing string   `json:"trailing,omitempty"`
	Detached []string `json:"detached,omitempty"`
}

type EnumValue struct {
	Name   string `json:"name"`
	Number int32  `json:"number"`
}

type Enum struct {
	Name   string      `json:"name"`
	Values []EnumValue `json:"values"`
	// InDep: declared in the imported file <name>_dep.proto (same proto package, same Go package) instead of the
	// file to generate.
	InDep bool `json:"in_dep,omitempty"`
}

type Field struct {
	Name   string `json:"name"`
	Number int32  `json:"number"`
	Card   string `json:"card,omitempty"`    // "", repeated, map
	Kind   string `json:"kind"`              // scalar name | enum | message | timestamp | duration
	Type   string `json:"type,omitempty"`    // enum / message name (same file)
	MapKey string `json:"map_key,omitempty"` // default "string"; other values only for C18 probes
	Oneof  string `json:"oneof,omitempty"`

	Nullable         *bool   `json:"nullable,omitempty"` // gogoproto.nullable, nil = not set
	Embed            bool    `json:"embed,omitempty"`
	NoStd            bool    `json:"nostd,omitempty"`              // timestamp/duration without stdtime/stdduration (probe only)
	StdDurationOnInt bool    `json:"stdduration_on_int,omitempty"` // int64 field with (gogoproto.stdduration): Go type time.Duration (test.proto: DurationStandard)
	JSONTag          *string `json:"jsontag,omitempty"`
	CastType         string  `json:"casttype,omitempty"`
	CustomType       string  `json:"customtype,omitempty"`

	Comment Comments `json:"comment,omitempty"`
}

type Message struct {
	Name    string   `json:"name"`
	Fields  []*Field `json:"fields"`
	Comment Comments `json:"comment,omitempty"`
	// InDep: declared in the imported file <name>_dep.proto (same proto package, same Go package); such a message
	// only refers to messages and enums of that file, and is never a selected type.
	InDep bool `json:"in_dep,omitempty"`
}

type File struct {
	Name      string `json:"name"`    // x.proto
	Package   string `json:"package"` // proto package
	GoPackage string `json:"go_package,omitempty"`
	// DepAltSpelling: the imported file spells the same Go package differently in its go_package option
	// ("path" <-> "path;name"; see AltGoPackage)
	DepAltSpelling bool       `json:"dep_alt_spelling,omitempty"`
	Getters        bool       `json:"getters,omitempty"` // goproto_getters_all
	Enums          []*Enum    `json:"enums,omitempty"`
	Messages       []*Message `json:"messages"`
	// CastTypes declared in the struct package: name -> underlying Go type.
	CastTypes map[string]string `json:"cast_types,omitempty"`
	// CustomTypes declared in the struct package: name -> underlying Go type.
	CustomTypes map[string]string `json:"custom_types,omitempty"`
}

// AltGoPackage returns the other spelling of the file's go_package option that names the same Go package
// ("path" -> "path;name" when the last path element is the package name, "path;name" -> "path" likewise), or ""
// when there is none.
func (f *File) AltGoPackage() string {
	gp := f.GoPackage
	if gp == "" {
		return ""
	}
	if i := strings.Index(gp, ";"); i >= 0 {
		if last := gp[:i][strings.LastIndex(gp[:i], "/")+1:]; last == gp[i+1:] {
			return gp[:i]
		}
		return ""
	}
	last := gp[strings.LastIndex(gp, "/")+1:]
	if last == "" || strings.ContainsAny(last, ".-") {
		return ""
	}
	return gp + ";" + last
}

// DepName is the name of the imported file that holds the InDep declarations.
func (f *File) DepName() string {
	return strings.TrimSuffix(f.Name, ".proto") + "_dep.proto"
}

// HasDep reports whether some declaration lives in the imported file.
func (f *File) HasDep() bool {
	for _, m := range f.Messages {
		if m.InDep {
			return true
		}
	}
	for _, e := range f.Enums {
		if e.InDep {
			return true
		}
	}
	return false
}

func (f *File) Msg(name string) *Message {
	for _, m := range f.Messages {
		if m.Name == name {
			return m
		}
	}
	return nil
}

func (f *File) Enum(name string) *Enum {
	for _, e := range f.Enums {
		if e.Name == name {
			return e
		}
	}
	return nil
}

func (m *Message) Field(name string) *Field {
	for _, f := range m.Fields {
		if f.Name == name {
			return f
		}
	}
	return nil
}

// OneofNames returns oneof names ordered by first appearance of a member (as protoc does).
func (m *Message) OneofNames() []string {
	var out []string
	seen := map[string]bool{}
	for _, f := range m.Fields {
		if f.Oneof != "" && !seen[f.Oneof] {
			seen[f.Oneof] = true
			out = append(out, f.Oneof)
		}
	}
	return out
}

// IsNullable reports the Go-level pointer-ness that gogo gives a singular/element message or std field.
func (f *Field) IsNullable() bool {
	if f.Nullable != nil {
		return *f.Nullable
	}
	return true
}

func (f *Field) IsMessageLike() bool {
	return f.Kind == KMessage
}

func (f *Field) IsScalar() bool {
	for _, s := range Scalars {
		if s == f.Kind {
			return true
		}
	}
	return false
}

func Clone[T any](v *T) *T {
	b, err := json.Marshal(v)
	if err != nil {
		panic(err)
	}
	out := new(T)
	if err := json.Unmarshal(b, out); err != nil {
		panic(err)
	}
	return out
}

// ---------------------------------------------------------------- configuration

type SchemaType struct {
	Type            string `json:"type,omitempty"`
	ValueType       string `json:"value_type,omitempty"`
	CastToType      string `json:"cast_to_type,omitempty"`
	CastFromType    string `json:"cast_from_type,omitempty"`
	TypeConstructor string `json:"type_constructor,omitempty"`
}

type InjectedField struct {
	Name          string   `json:"name"`
	Type          string   `json:"type"`
	Required      bool     `json:"required,omitempty"`
	Computed      bool     `json:"computed,omitempty"`
	Optional      bool     `json:"optional,omitempty"`
	Validators    []string `json:"validators,omitempty"`
	PlanModifiers []string `json:"plan_modifiers,omitempty"`
}

type Config struct {
	Types               []string                   `json:"types,omitempty"`
	Sort                bool                       `json:"sort,omitempty"`
	UseStateForUnknown  bool                       `json:"use_state_for_unknown_by_default,omitempty"`
	DefaultPackageName  string                     `json:"default_package_name,omitempty"`
	TargetPackageName   string                     `json:"target_package_name,omitempty"`
	ImportPathOverrides map[string]string          `json:"import_path_overrides,omitempty"`
	TimeType            *SchemaType                `json:"time_type,omitempty"`
	DurationType        *SchemaType                `json:"duration_type,omitempty"`
	DurationCustomType  string                     `json:"duration_custom_type,omitempty"`
	ExcludeFields       []string                   `json:"exclude_fields,omitempty"`
	RequiredFields      []string                   `json:"required_fields,omitempty"`
	ComputedFields      []string                   `json:"computed_fields,omitempty"`
	SensitiveFields     []string                   `json:"sensitive_fields,omitempty"`
	NameOverrides       map[string]string          `json:"name_overrides,omitempty"`
	Validators          map[string][]string        `json:"validators,omitempty"`
	PlanModifiers       map[string][]string        `json:"plan_modifiers,omitempty"`
	CustomTypes         map[string]string          `json:"custom_types,omitempty"`
	Suffixes            map[string]string          `json:"suffixes,omitempty"`
	InjectedFields      map[string][]InjectedField `json:"injected_fields,omitempty"`
}

func Has(list []string, s string) bool {
	for _, x := range list {
		if x == s {
			return true
		}
	}
	return false
}

func SortedKeys[V any](m map[string]V) []string {
	ks := make([]string, 0, len(m))
	for k := range m {
		ks = append(ks, k)
	}
	sort.Strings(ks)
	return ks
}
