package ir

// Module is the Go module every compiled case lives in.
const Module = "vcase.test/m"

// SupportPath is the import path of the shared support package.
const SupportPath = "verif/support"

// Layout fixes where the struct package and the generated file live.
type Layout struct {
	Variant      string `json:"variant"`       // v0, v1, ...
	StructPath   string `json:"struct_path"`   // import path of the gogo struct package
	StructName   string `json:"struct_name"`   // its package name
	StructDir    string `json:"struct_dir"`    // directory relative to the case module
	Separate     bool   `json:"separate"`      // generated file lives in another package
	TargetName   string `json:"target_name"`   // package clause expected in the generated file
	TargetPath   string `json:"target_path"`   // import path of the package holding the generated file
	TargetDir    string `json:"target_dir"`    // its directory
	UseOverride  bool   `json:"use_override"`  // default_package_name is a short name resolved by import_path_overrides
	QualifiedTF  bool   `json:"qualified_tf"`  // time/duration types named by full import path of the support package
	SharedStruct bool   `json:"shared_struct"` // the struct package is written by another variant
}
