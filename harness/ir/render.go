package ir

import (
	"encoding/json"
	"fmt"
	"sort"
	"strings"
)

// Shuffler permutes the presentation order of set-like things. nil keeps the
// canonical (sorted / declared) order.
type Shuffler func(n int) []int

func perm(sh Shuffler, n int) []int {
	if sh == nil {
		p := make([]int, n)
		for i := range p {
			p[i] = i
		}
		return p
	}
	return sh(n)
}

func shuffled(sh Shuffler, in []string) []string {
	out := make([]string, len(in))
	for i, j := range perm(sh, len(in)) {
		out[i] = in[j]
	}
	return out
}

func q(s string) string {
	b, _ := json.Marshal(s)
	return string(b)
}

// CLIOptions are the nine options that can be given on both channels (C16).
var CLIOptions = []string{"types", "exclude_fields", "computed_fields", "required_fields", "sensitive_fields",
	"default_package_name", "target_package_name", "duration_custom_type", "sort"}

// YAML renders the configuration. skip lists top-level options to leave out
// (because they travel on the command line instead).
func (c *Config) YAML(sh Shuffler, skip map[string]bool) string {
	type section struct {
		key  string
		body func(b *strings.Builder)
	}
	var secs []section
	add := func(key string, present bool, body func(b *strings.Builder)) {
		if present && !skip[key] {
			secs = append(secs, section{key, body})
		}
	}
	list := func(key string, l []string, setLike bool) {
		add(key, len(l) > 0, func(b *strings.Builder) {
			fmt.Fprintf(b, "%s:\n", key)
			items := l
			if setLike {
				items = shuffled(sh, l)
			}
			for _, x := range items {
				fmt.Fprintf(b, "  - %s\n", q(x))
			}
		})
	}
	str := func(key, v string) {
		add(key, v != "", func(b *strings.Builder) { fmt.Fprintf(b, "%s: %s\n", key, q(v)) })
	}
	strMap := func(key string, m map[string]string) {
		add(key, len(m) > 0, func(b *strings.Builder) {
			fmt.Fprintf(b, "%s:\n", key)
			for _, k := range shuffled(sh, SortedKeys(m)) {
				fmt.Fprintf(b, "  %s: %s\n", q(k), q(m[k]))
			}
		})
	}
	listMap := func(key string, m map[string][]string) {
		add(key, len(m) > 0, func(b *strings.Builder) {
			fmt.Fprintf(b, "%s:\n", key)
			for _, k := range shuffled(sh, SortedKeys(m)) {
				if len(m[k]) == 0 {
					fmt.Fprintf(b, "  %s: []\n", q(k))
					continue
				}
				fmt.Fprintf(b, "  %s:\n", q(k))
				for _, x := range m[k] { // ordered: meaning
					fmt.Fprintf(b, "    - %s\n", q(x))
				}
			}
		})
	}
	st := func(key string, t *SchemaType) {
		add(key, t != nil, func(b *strings.Builder) {
			fmt.Fprintf(b, "%s:\n", key)
			kv := [][2]string{{"type", t.Type}, {"value_type", t.ValueType}, {"cast_to_type", t.CastToType}, {"cast_from_type", t.CastFromType}, {"type_constructor", t.TypeConstructor}}
			for _, i := range perm(sh, len(kv)) {
				if kv[i][1] != "" {
					fmt.Fprintf(b, "  %s: %s\n", kv[i][0], q(kv[i][1]))
				}
			}
		})
	}
	list("types", c.Types, true)
	add("sort", c.Sort, func(b *strings.Builder) { b.WriteString("sort: true\n") })
	add("use_state_for_unknown_by_default", c.UseStateForUnknown, func(b *strings.Builder) { b.WriteString("use_state_for_unknown_by_default: true\n") })
	str("default_package_name", c.DefaultPackageName)
	str("target_package_name", c.TargetPackageName)
	strMap("import_path_overrides", c.ImportPathOverrides)
	st("time_type", c.TimeType)
	st("duration_type", c.DurationType)
	str("duration_custom_type", c.DurationCustomType)
	list("exclude_fields", c.ExcludeFields, true)
	list("required_fields", c.RequiredFields, true)
	list("computed_fields", c.ComputedFields, true)
	list("sensitive_fields", c.SensitiveFields, true)
	strMap("name_overrides", c.NameOverrides)
	listMap("validators", c.Validators)
	listMap("plan_modifiers", c.PlanModifiers)
	strMap("custom_types", c.CustomTypes)
	strMap("suffixes", c.Suffixes)
	add("injected_fields", len(c.InjectedFields) > 0, func(b *strings.Builder) {
		b.WriteString("injected_fields:\n")
		for _, k := range shuffled(sh, SortedKeys(c.InjectedFields)) {
			fmt.Fprintf(b, "  %s:\n", q(k))
			for _, f := range c.InjectedFields[k] { // ordered
				fmt.Fprintf(b, "    - name: %s\n      type: %s\n", q(f.Name), q(f.Type))
				if f.Required {
					b.WriteString("      required: true\n")
				}
				if f.Computed {
					b.WriteString("      computed: true\n")
				}
				if f.Optional {
					b.WriteString("      optional: true\n")
				}
				if len(f.Validators) > 0 {
					b.WriteString("      validators:\n")
					for _, x := range f.Validators {
						fmt.Fprintf(b, "        - %s\n", q(x))
					}
				}
				if len(f.PlanModifiers) > 0 {
					b.WriteString("      plan_modifiers:\n")
					for _, x := range f.PlanModifiers {
						fmt.Fprintf(b, "        - %s\n", q(x))
					}
				}
			}
		}
	})
	var b strings.Builder
	b.WriteString("---\n")
	for _, i := range perm(sh, len(secs)) {
		secs[i].body(&b)
	}
	return b.String()
}

// CLI renders the given subset of the nine two-channel options as plugin
// parameters (k=v joined by ","). For "sensitive fields" and "custom duration
// type" the value is passed under both spellings (the code's and the README's),
// see DESIGN.md §5 C16.
func (c *Config) CLI(sh Shuffler, only map[string]bool, extra ...string) string {
	var ps []string
	on := func(k string) bool { return only == nil || only[k] }
	lst := func(opt string, keys []string, l []string) {
		if on(opt) && len(l) > 0 {
			v := strings.Join(shuffled(sh, l), "+")
			for _, k := range keys {
				ps = append(ps, k+"="+v)
			}
		}
	}
	str := func(opt string, keys []string, v string) {
		if on(opt) && v != "" {
			for _, k := range keys {
				ps = append(ps, k+"="+v)
			}
		}
	}
	lst("types", []string{"types"}, c.Types)
	lst("exclude_fields", []string{"exclude_fields"}, c.ExcludeFields)
	lst("computed_fields", []string{"computed_fields"}, c.ComputedFields)
	lst("required_fields", []string{"required_fields"}, c.RequiredFields)
	lst("sensitive_fields", []string{"sensitive", "sensitive_fields"}, c.SensitiveFields)
	str("default_package_name", []string{"default_package_name"}, c.DefaultPackageName)
	str("target_package_name", []string{"target_package_name"}, c.TargetPackageName)
	str("duration_custom_type", []string{"custom_duration", "duration_custom_type"}, c.DurationCustomType)
	if on("sort") && c.Sort {
		ps = append(ps, "sort=true")
	}
	ps = append(ps, extra...)
	out := make([]string, len(ps))
	for i, j := range perm(sh, len(ps)) {
		out[i] = ps[j]
	}
	return strings.Join(out, ",")
}

// Canon sorts the set-like lists so that equal configurations compare equal.
func (c *Config) Canon() {
	for _, l := range []*[]string{&c.Types, &c.ExcludeFields, &c.RequiredFields, &c.ComputedFields, &c.SensitiveFields} {
		sort.Strings(*l)
	}
}
